"""C06 — send queue is byte-exact FIFO.  Engine `q` (real conn object, scripted transport)."""
import re

from .common import hx, unhx, rbytes, load_corpus

ID = "C06"
ENGINE = "q"
VARIANT = "std"
STATEFUL = True
LEVEL = "proof"
# whole sessions on engine `conn`: the reported queue length across disconnect / reconnect of one object
ALSO = [("c06conn", 300)]
FILES = ["conn.c", "event.c"]
TRUSTED = ["model Strophe/Model/SendQueue.lean tied to conn.c (send/drop/len) and the write loop of "
           "xmpp_run_once (event.c) by differential execution (engine q): after EVERY op the complete "
           "internal queue state (owner, written, wip, link, data per element; both counters; SM queue) "
           "of the real connection object is compared with the model's"]
ASSUMPTIONS = ["transport = scripted conn_interface (accept all / n bytes / 0 / EAGAIN / hard error per write call)",
               "allocation failures not modelled"]
RULE = ("random interleavings of user sends, library sends, SM on/off, loop iterations with random accept "
        "schedules, drop-oldest/youngest, len, disconnect; case length up to 60 (quick) / 400 (thorough) ops; "
        "distinct = tag (op kind, queue-shape class before the op, result class)")

REQ = b"<r xmlns='urn:xmpp:sm:3'/>"


def corpus():
    return load_corpus(ID)


def rdata(rng, nul_ok=True):
    k = rng.random()
    if k < 0.05:
        return b""
    if k < 0.15:
        # arbitrary bytes; NUL only in library elements (drop hands user text back as a C string)
        return rbytes(rng, rng.randrange(1, 5), None if nul_ok else list(range(1, 256)))
    n = rng.choice([1, 2, 3, 5, 8, 13, 40, 200])
    return rbytes(rng, rng.randrange(1, n + 1), list(b"abcdefghij<>/ '"))


def rsched(rng):
    n = rng.choice([0, 1, 1, 2, 3, 5, 8])
    items = []
    for _ in range(n):
        k = rng.random()
        if k < 0.45:
            items.append("all")
        elif k < 0.8:
            items.append(str(rng.choice([0, 1, 2, 3, 5, 7, 30, 1000])))
        elif k < 0.97:
            items.append("again")
        else:
            items.append("err")
    return ",".join(items) if items else "-"


def gen_case(rng, maxlen):
    ops = []
    n = rng.randrange(3, maxlen + 1)
    if rng.random() < 0.5:
        ops.append("sm 1")
    for _ in range(n):
        k = rng.random()
        if k < 0.04:
            # the formatted entry point; sizes around its 1024-byte stack buffer
            ln = rng.choice([1, 10, 1000, 1022, 1023, 1024, 1025, 1026, 2047, 2048, 3000])
            ops.append("sf " + hx(bytes(rng.choice(b"abcdefghijklmnopqrstuvwxyz<>/= '") for _ in range(ln))))
        elif k < 0.30:
            ops.append("su " + hx(rdata(rng, nul_ok=False)))
        elif k < 0.40:
            ops.append("sl " + hx(rdata(rng)))
        elif k < 0.44:
            ops.append("ss " + hx(rdata(rng)))
        elif k < 0.68:
            ops.append("w " + rsched(rng))
        elif k < 0.78:
            ops.append("dropo")
        elif k < 0.88:
            ops.append("dropy")
        elif k < 0.95:
            ops.append("len")
        elif k < 0.975:
            ops.append("sm " + rng.choice("01"))
        else:
            ops.append("disc")
    return ops


def generate(rng, tier, override=0):
    n = override or (5000 if tier == "quick" else 100000)
    maxlen = 60 if tier == "quick" else 400
    return [gen_case(rng, maxlen if rng.random() < 0.2 else 25) for _ in range(n)]


PAT = re.compile(r"^= (.*?) \| wire (\S+) \| q (-?\d+) (-?\d+) (\S+) sm (\d+) (\d) (\S+) \| st (\w) ev (\S+)$")


def parse_elems(q):
    return [] if q == "-" else [e.split(":") for e in q.split(",")]


def pend(elems):
    return b"".join(unhx(e[4])[int(e[1]):] for e in elems)


def py_oracle(ops, outs):
    """Model-free statement of the property, checked step by step on the state the implementation
    reports (owner:written:wip:linked:data per element):
      send:  pending' = pending ++ text (++ <r/> when one was linked)
      loop:  wire ++ pending' = pending            (nothing lost, repeated or reordered)
      drop:  returns the full text of the oldest/youngest USER element that was not started
             (any user element once disconnected); exactly that element (and an <r/> linked to it)
             disappears; nothing reaches the wire
      len:   number of user elements not yet started
      counters agree with the list; at most one DISCONNECT per op."""
    fails = []
    pre = []
    connected = True
    for i, (op, out) in enumerate(zip(ops, outs)):
        m = PAT.match(out)
        if not m:
            if out != "= bad-op":
                fails.append((i, "unparsable-output %s" % out[:80]))
            continue
        res, w, qlen, ulen, q, sent_nr, rs, smq, st, ev = m.groups()
        w = unhx(w)
        post = parse_elems(q)
        t = op.split(" ")
        if t[0] in ("su", "sl", "ss", "sf"):
            data = unhx(t[1])
            added = pend(post)[len(pend(pre)):] if pend(post).startswith(pend(pre)) else None
            ok = added in ((data, data + REQ) if connected else (b"",))
            if not connected and post != pre:
                ok = False
            if not ok or w:
                fails.append((i, "enqueue-mismatch"))
        elif t[0] == "w":
            if w + pend(post) != pend(pre):
                fails.append((i, "fifo-mismatch wire+pending' %s… != pending %s…" % (hx(w + pend(post))[:40], hx(pend(pre))[:40])))
        elif t[0] in ("dropo", "dropy"):
            cand = [k for k, e in enumerate(pre) if e[0] == "u" and (e[2] == "0" or not connected)]
            want = (cand[0] if t[0] == "dropo" else cand[-1]) if cand else None
            # the implementation protects only a started HEAD; a started element can only be the head
            if res == "drop null":
                if want is not None:
                    fails.append((i, "drop-refused-although-droppable"))
                if post != pre:
                    fails.append((i, "drop-null-changed-queue"))
            else:
                text = unhx(res[5:])
                if want is None or unhx(pre[want][4]) != text:
                    fails.append((i, "drop-wrong-element got %s" % res[5:45]))
                else:
                    if connected and (pre[want][1] != "0" or pre[want][2] != "0"):
                        fails.append((i, "dropped-started-element"))
                    rest = pre[:want] + pre[want + 1:]
                    rest2 = pre[:want] + pre[want + 2:]
                    strip = lambda L: [(e[0], e[1], e[2], e[4]) for e in L]
                    if strip(post) != strip(rest) and not (
                            want + 1 < len(pre) and pre[want + 1][3] == "1" and strip(post) == strip(rest2)):
                        fails.append((i, "drop-removed-other-elements"))
            if w:
                fails.append((i, "drop-wrote-bytes"))
        elif t[0] in ("len", "sm", "disc"):
            if pend(post) != pend(pre) or w:
                fails.append((i, "state-changed-by-%s" % t[0]))
        if res.startswith("len "):
            n_user_unstarted = sum(1 for e in post if e[0] == "u" and e[2] == "0")
            if int(res[4:]) != n_user_unstarted:
                fails.append((i, "len-mismatch got %s want %d" % (res[4:], n_user_unstarted)))
        if int(qlen) != len(post) or int(ulen) != sum(1 for e in post if e[0] == "u"):
            fails.append((i, "counter-mismatch %s/%s vs %d elements" % (qlen, ulen, len(post))))
        if any(e[2] == "1" or e[1] != "0" for e in post[1:]):
            fails.append((i, "non-head-element-started"))
        if "DISCONNECT,DISCONNECT" in ev:
            fails.append((i, "double-disconnect"))
        connected = st == "c"
        pre = post
    return fails


def signature(case, i, what):
    w = what.split(" ")
    return "%s:%s" % (ID, w[1] if w[0] == "ORACLE-FAIL" and len(w) > 1 else w[0])


def tags(case, outs):
    res = []
    prev_q = "-"
    for op, out in zip(case.ops, outs):
        m = PAT.match(out)
        t = op.split(" ")
        kind = t[0]
        shape = "e"
        if prev_q != "-":
            el = [e.split(":") for e in prev_q.split(",")]
            shape = "%s%s%s" % (el[0][0], "w" if el[0][2] == "1" else "", "+" if len(el) > 1 else "")
        r = "?"
        if m:
            r = m.group(1).split(" ")[0] + ("0" if m.group(1).endswith("null") else "")
            if kind == "w":
                sched = t[1].split(",")
                r = "w:" + ("err" if "err" in sched else ("part" if any(x.isdigit() for x in sched) else "full"))
            prev_q = m.group(5)
        res.append("%s:%s:%s" % (kind, shape, r))
    return res
