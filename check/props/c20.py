"""C20 — stream compression is transparent.  Engine `zl` (stateful, recorded-parameter replay).

Implementation side: harness/eng_zl.c = the real compression.c + the real zlib + the real
xmpp_run_once write loop over a scripted lower transport; every deflate()/inflate() call is
recorded (`z …` lines).  Model side: Strophe/Model/Compression.lean driven by Strophe/Drv/Zl.lean,
which consumes the ops annotated with those recordings (`lean_input`).  The oracle below is
independent of both: Python's zlib plays the server."""
import zlib

from .common import hx, unhx, rbytes, load_corpus

ID = "C20"
ENGINE = "zl"
# companion pass: the negotiation of compression (auth.c) runs on engine conn
ALSO = [("c20conn", 200)]
VARIANT = "std"
STATEFUL = True
LEVEL = "proof"
FILES = ["compression.c", "event.c", "conn.c"]
TRUSTED = ["model Strophe/Model/Compression.lean (staging layer only) tied to src/compression.c + the "
           "write loop / read branch of src/event.c by differential execution (engine zl) with the real "
           "zlib's call results replayed into the model",
           "zlib itself is a parameter (Codec) under the named hypotheses HZlib; the hypotheses are "
           "checked on every recorded call by harness/eng_zl.c (ORACLE-FAIL hyp-zlib) and the streams are "
           "cross-checked against Python's zlib"]
ASSUMPTIONS = ["H-zlib: stream correctness after a completed sync/full flush, Z_BUF_ERROR on a flush = nothing "
               "left to flush, inflate delivers everything available when it returns with room left",
               "the lower transport is the scripted conn_interface of the harness (sock semantics: "
               "EAGAIN/EINTR recoverable); no TLS below the compression layer",
               "allocation failures and deflateInit/inflateInit failures are not modelled",
               "stream management off (sm_state zeroed)"]
RULE = ("cases = init full|sync, then (a) element sequences of 0 B … 128 KiB (random, text-like, runs; around "
        "the 4096-byte staging size) sent in one or several loop iterations under lower-transport schedules "
        "all / n bytes / 0 / EAGAIN / hard error per write call, (b) server plaintext deflated by Python's zlib "
        "with sync flushes and delivered in every single-cut fragmentation, 1-byte fragments, fixed and random "
        "fragment sizes (incl. > 4096), garbage and EOF, (c) both directions interleaved; distinct = tag "
        "(op kind, size class, schedule / fragment shape, result shape)")

SIZES = [1, 2, 3, 10, 64, 100, 1000, 4000, 4095, 4096, 4097, 5000, 8191, 8192, 8193, 20000, 40000, 65536]


def corpus():
    return load_corpus(ID)


# ---------------------------------------------------------------------------------------------
# generation

def payload(rng, n, kind=None):
    kind = kind or rng.choice(["rand", "rand", "text", "run", "xml"])
    if kind == "rand":
        return rng.randbytes(n)
    if kind == "run":
        return bytes([rng.randrange(256)]) * n
    if kind == "text":
        words = [b"presence", b"message", b"iq", b" ", b"from='a@b/c'", b"<body>", b"</body>", b"hello", b"\n"]
        out = b""
        while len(out) < n:
            out += rng.choice(words)
        return out[:n]
    body = b"<message to='romeo@montague.lit' id='%d'><body>" % rng.randrange(10 ** 6)
    out = body
    while len(out) < n:
        out += rng.choice([b"wherefore art thou ", b"&amp;", b"x", bytes([rng.randrange(97, 123)])])
    return (out + b"</body></message>")[:max(n, 1)] if n else b""


def pick_size(rng, big):
    r = rng.random()
    if r < 0.55:
        return rng.choice(SIZES[:9])
    if r < 0.85:
        return rng.choice(SIZES[:15])
    if r < 0.95 or not big:
        return rng.randrange(1, 9000)
    return rng.choice([20000, 40000, 65536, 70000, 100000, 131072])


def sched(rng, mode):
    if mode == "all":
        return "-"
    n = rng.randrange(1, 8)
    ents = []
    for _ in range(n):
        r = rng.random()
        if mode == "short":
            ents.append(rng.choice(["all", str(rng.choice([0, 1, 5, 100, 1000, 4095, 4096]))]))
        elif mode == "again":
            ents.append(rng.choice(["all", "all", "again"]))
        elif mode == "err":
            ents.append(rng.choice(["all", "all", "err"]))
        else:
            ents.append("all" if r < 0.4 else "again" if r < 0.6 else "err" if r < 0.65
                        else str(rng.choice([0, 1, 7, 100, 1000, 4000, 4095, 4096, 5000])))
    return ",".join(ents)


def gen_write(rng, big, mode):
    ops = ["init " + rng.choice(["full", "full", "sync"])]
    for _ in range(rng.randrange(1, 5)):
        for _ in range(rng.choice([1, 1, 1, 2, 3])):
            n = pick_size(rng, big)
            kind = None
            if rng.random() < 0.02:
                n = 0
            elif mode == "again" and rng.random() < 0.5:
                # deflate must stop in the middle of the element (output full, input left): that
                # needs more than one zlib window of incompressible input
                n, kind = rng.choice([40000, 70000, 100000, 131072]), "rand"
            ops.append("send " + hx(payload(rng, n, kind)))
        for _ in range(rng.choice([1, 1, 1, 2, 4])):
            ops.append("w " + sched(rng, mode))
    # let everything drain through a transport that accepts everything
    ops += ["w -"] * rng.choice([0, 1, 3])
    ops.append("end")
    return ops


def fragmentations(rng, z, mode):
    if mode == "whole":
        return [z]
    if mode == "bytes":
        return [z[i:i + 1] for i in range(len(z))]
    if mode == "fixed":
        k = rng.choice([2, 3, 5, 16, 100, 1000, 4095, 4096, 4097, 5000, 9000])
        return [z[i:i + k] for i in range(0, len(z), k)]
    if mode.startswith("cut"):
        c = int(mode[3:])
        return [x for x in (z[:c], z[c:]) if x]
    cuts = sorted(set(rng.randrange(1, len(z)) for _ in range(rng.randrange(1, 12)))) if len(z) > 1 else []
    res, last = [], 0
    for c in cuts + [len(z)]:
        res.append(z[last:c])
        last = c
    return [x for x in res if x]


def gen_read(rng, big, mode=None):
    ops = ["init " + rng.choice(["full", "sync"])]
    c = zlib.compressobj(rng.choice([1, 6, 6, 9]))
    segs = []          # compressed segments, each ending at a flush point of the server
    cur = b""
    for _ in range(rng.randrange(1, 6)):
        n = pick_size(rng, big)
        kind = rng.choice(["rand", "text", "run", "run", "xml"])
        cur += c.compress(payload(rng, n, kind))
        if rng.random() < 0.8:
            cur += c.flush(rng.choice([zlib.Z_SYNC_FLUSH, zlib.Z_FULL_FLUSH]))
            segs.append(cur)
            cur = b""
    segs.append(cur + c.flush(zlib.Z_SYNC_FLUSH))
    z = b"".join(segs)
    mode = mode or rng.choice(["segments", "segments", "whole", "fixed", "random",
                               "bytes" if len(z) <= 400 else "fixed"])
    if mode == "segments":
        # every fragment carries at least one complete flushed stanza (never zero plaintext)
        frags = []
        for sg in segs:
            if frags and rng.random() < 0.3:
                frags[-1] += sg
            else:
                frags.append(sg)
    else:
        frags = fragmentations(rng, z, mode)
    for f in frags:
        if not f:
            continue
        ops.append("rxz " + hx(f))
        if rng.random() < 0.1:
            ops.append("pend")
    r = rng.random()
    if r < 0.1:
        ops.append("eof")
    elif r < 0.15:
        ops.append("rxz " + hx(rng.randbytes(rng.randrange(1, 20))))
    ops.append("end")
    return ops


def gen_mixed(rng, big):
    w = gen_write(rng, False, rng.choice(["all", "all", "mixed"]))[1:-1]
    r = gen_read(rng, False)[1:-1]
    ops = ["init " + rng.choice(["full", "sync"])]
    while w or r:
        src = w if (w and (not r or rng.random() < 0.5)) else r
        ops.append(src.pop(0))
    ops.append("end")
    return ops


def generate(rng, tier, override=0):
    n = override or (160 if tier == "quick" else 1500)
    cases = []
    # deterministic small family: every single-cut fragmentation and the 1-byte fragmentation of
    # one deflated stanza, for both flush flavours of the server
    for fl in (zlib.Z_SYNC_FLUSH, zlib.Z_FULL_FLUSH):
        c = zlib.compressobj()
        z = c.compress(b"<message to='juliet@capulet.lit'><body>hi</body></message>") + c.flush(fl)
        modes = ["whole", "bytes"] + ["cut%d" % i for i in range(1, len(z))]
        for m in modes if not override else modes[:3]:
            cases.append(["init full"] + ["rxz " + hx(f) for f in fragmentations(rng, z, m)] + ["pend", "end"])
    # highly compressible plaintext larger than the 4096-byte read buffer, every single cut of its
    # (tiny) deflated form: the cut decides how much output is still inside zlib when the input of
    # the first fragment is used up
    for N, pat in ((4200, b"A"), (5000, b"abcdefgh")) if not override else ():
        c = zlib.compressobj()
        z = c.compress((pat * N)[:N]) + c.flush(zlib.Z_SYNC_FLUSH)
        for cut in range(1, len(z)):
            cases.append(["init sync", "rxz " + hx(z[:cut]), "pend", "rxz " + hx(z[cut:]), "end"])
    for i in range(n):
        r = rng.random()
        big = rng.random() < 0.25
        if r < 0.30:
            cases.append(gen_write(rng, big, "all"))
        elif r < 0.40:
            cases.append(gen_write(rng, big, "short"))
        elif r < 0.48:
            cases.append(gen_write(rng, True, "again"))
        elif r < 0.52:
            cases.append(gen_write(rng, big, "err"))
        elif r < 0.62:
            cases.append(gen_write(rng, big, "mixed"))
        elif r < 0.92:
            cases.append(gen_read(rng, big))
        else:
            cases.append(gen_mixed(rng, big))
    return cases


# ---------------------------------------------------------------------------------------------
# annotated trace for the model

def lean_input(ops, extras_per_op):
    lines = []
    for op, extras in zip(ops, extras_per_op):
        lines += [e for e in extras if e.startswith("z ")]
        lines.append(op)
    return lines


# ---------------------------------------------------------------------------------------------
# model-free oracle: Python's zlib is the server

def fields(out):
    d = {}
    for t in out.split(" ")[2:]:
        if "=" in t:
            k, v = t.split("=", 1)
            d[k] = v
    return d


def py_oracle(ops, outs):
    fails = []
    seen = set()

    def fail(i, kind, msg):
        if kind not in seen:
            seen.add(kind)
            fails.append((i, "%s %s" % (kind, msg)))

    connected = False
    submitted = b""
    srv = zlib.decompressobj()
    srv_plain = b""
    srv_dead = False
    short_seen = again_seen = False
    cli = zlib.decompressobj()
    expected = b""
    delivered = b""
    peer_bad = False
    for i, (op, out) in enumerate(zip(ops, outs)):
        t = op.split(" ")
        o = out.split(" ")
        if t[0] == "init" and out == "= init 0":
            connected = True
        elif t[0] == "send" and connected and o[:2] != ["=", "bad-op"]:
            submitted += unhx(t[1])
        elif t[0] in ("w", "rxz", "eof") and o[1] == "io":
            f = fields(out)
            is_w = t[0] == "w"
            net_hex = f["net"]
            calls = [] if f["calls"] == "-" else [tuple(int(x) for x in c.split(":")) for c in f["calls"].split(",")]
            answers = [] if (not is_w or t[1] == "-") else t[1].split(",")
            backpressure = any(a != off for off, a in calls)
            hard = any(idx < len(answers) and answers[idx] == "err" for idx in range(len(calls)))
            was = connected
            connected = f["st"] == "c"
            for idx, (off, a) in enumerate(calls):
                if 0 <= a < off:
                    short_seen = True
                if a < 0 and idx < len(answers) and answers[idx] == "again":
                    again_seen = True
            cause = "lost-bytes" if short_seen else "dup-deflate" if again_seen else None
            if not srv_dead:
                try:
                    srv_plain += srv.decompress(unhx(net_hex))
                except zlib.error as e:
                    srv_dead = True
                    fail(i, cause or "corrupt-stream", "the server cannot inflate what it received (%s)" % e)
            if not submitted.startswith(srv_plain):
                fail(i, cause or "corrupt-stream", "the server inflates bytes that were not submitted in this order")
            elif (was and connected and not backpressure and not srv_dead and not cause
                  and len(srv_plain) < int(f["acked"])):
                fail(i, "not-flushed", "server can inflate %d of the %s bytes taken from the queue, the lower "
                     "transport accepted every write of this iteration" % (len(srv_plain), f["acked"]))
            rets = [] if f["rets"] == "-" else [int(x) for x in f["rets"].split(",")]
            if was and not connected and not hard and not (rets and rets[-1] <= 0):
                fail(i, "spurious-disconnect", "disconnected although the lower transport reported no hard error")
            if t[0] == "rxz" and not peer_bad:
                try:
                    expected += cli.decompress(unhx(t[1]))
                    if cli.eof:
                        peer_bad = True
                except zlib.error:
                    peer_bad = True
            delivered += unhx(f["plain"])
            if not peer_bad:
                if not expected.startswith(delivered):
                    fail(i, "read-mismatch", "delivered plaintext is not what the server deflated")
                elif was and not connected and t[0] == "rxz" and rets and rets[-1] <= 0:
                    fail(i, "spurious-eof", "a fragment of a healthy stream closed the connection (read returned %s)"
                         % f["rets"])
                elif not is_w and connected and len(delivered) < len(expected):
                    if f.get("pend") == "1":
                        fail(i, "pending-ignored", "delivered %d of %d bytes; input waits in the decompression "
                             "buffer (pending=1) but the socket is drained" % (len(delivered), len(expected)))
                    else:
                        fail(i, "read-stall", "delivered %d of %d bytes; socket drained, pending=0: the rest is "
                             "inside zlib" % (len(delivered), len(expected)))
        elif t[0] == "end" and out.startswith("= end live=") and out != "= end live=0":
            fail(i, "leak", "%s block(s) still allocated after xmpp_conn_release" % out.split("=")[-1])
    return fails


def signature(case, i, what):
    w = what.split(" ")
    kind = w[1] if w[0] == "ORACLE-FAIL" and len(w) > 1 else w[0]
    return "%s:%s" % (ID, kind)


# ---------------------------------------------------------------------------------------------

def size_class(n):
    for lim, name in ((0, "0"), (1, "1"), (100, "s"), (4095, "m"), (4096, "=4096"), (8192, "l"), (65536, "xl")):
        if n <= lim:
            return name
    return "xxl"


def tags(case, outs):  # noqa: C901
    res = []
    for op, out in zip(case.ops, outs):
        t = op.split(" ")
        o = out.split(" ")
        if t[0] == "send":
            res.append("send:" + size_class(len(unhx(t[1]))))
        elif t[0] in ("w", "rxz", "eof") and len(o) > 1 and o[1] == "io":
            f = fields(out)
            calls = [] if f["calls"] == "-" else [tuple(int(x) for x in c.split(":")) for c in f["calls"].split(",")]
            shape = "".join(sorted(set("f" if a == off else "e" if a < 0 else "z" if a == 0 else "p"
                                       for off, a in calls))) or "-"
            rets = [] if f["rets"] == "-" else [int(x) for x in f["rets"].split(",")]
            rshape = "".join(sorted(set("0" if r == 0 else "-" if r < 0 else "F" if r == 4096 else "+"
                                        for r in rets))) or "none"
            n = len(unhx(t[1])) if t[0] == "rxz" else 0
            res.append("%s:%s:w%s:n%s:r%s:p%s:%s:q%s" % (t[0], size_class(n), shape, size_class(len(calls)), rshape,
                                                        f["pend"], f["st"], "0" if f["q"] == "0" else "+"))
        else:
            res.append(t[0] + ":" + (o[1] if len(o) > 1 else "?"))
    return res
