"""companion pass of C10: what conn.c makes of the parser events (stream start, restart, end, stanza callbacks):
correspondence of model and implementation on ordinary `conn` sessions (no oracle of its own)
"""
from . import conn_gen, c01

ID = "C10"
ENGINE = "conn"
VARIANT = "std"
STATEFUL = True
LEVEL = "proof"
FILES = c01.FILES
TRUSTED = c01.TRUSTED
ASSUMPTIONS = c01.ASSUMPTIONS
RULE = c01.RULE
lean_input = conn_gen.lean_input
IGNORE_ORACLE = ["leak"]
PAT = c01.PAT


def corpus():
    return []


def generate(rng, tier, override=0):
    n = override or 400
    return [conn_gen.gen_session(rng, tier, "mixed") for _ in range(n)]


def py_oracle(ops, outs):
    return []


def signature(case, i, what):
    return c01.signature(case, i, what).replace("C01", ID, 1)


tags = c01.tags
