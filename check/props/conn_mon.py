"""Model-free monitors over the observable transcript of engine `conn` (what the server sent — taken
from the ops — and what the client wrote / notified — taken from the implementation's output).
They state C02, C03, C05, C13 (and the honest-server part of C04) directly, independently of the
Lean model."""
import re

from .common import unhx

PAT = re.compile(r"^= (.*?) \| tx (\S+) \| ev (\S+) \| st (\S+) neg (\d) sec (\d) q (-?\d+)(?: sm (\S+)(?: s(\d+) h(\d+) q(\S+))?)?(?: sid \S+)?(?: ql -?\d+)?$")

F_DISABLE_TLS, F_MANDATORY_TLS, F_LEGACY_SSL, F_TRUST_TLS, F_LEGACY_AUTH, F_DISABLE_SM, F_COMPRESS, F_COMP_DR = \
    1, 2, 4, 8, 16, 32, 64, 128

STRONGER = {"DIGEST-MD5", "SCRAM-SHA-1", "SCRAM-SHA-256", "SCRAM-SHA-512", "SCRAM-SHA-1-PLUS",
            "SCRAM-SHA-256-PLUS", "SCRAM-SHA-512-PLUS"}


def parse_line(out):
    m = PAT.match(out)
    if not m:
        if out.startswith("= ") and " | st " in out and " | tx " in out:
            # never skip silently what should have been understood (a status-line field was added?)
            raise ValueError("conn_mon: status line not understood: %r" % out[:300])
        return None
    res, tx, ev, st, neg, sec, q, smf, s, h, smq = m.groups()
    return {"res": res, "tx": [] if tx == "-" else tx.split(","), "ev": [] if ev == "-" else ev.split(","),
            "st": st, "neg": neg == "1", "sec": sec == "1", "q": int(q), "smf": smf,
            "sent": int(s) if s is not None else None, "handled": int(h) if h is not None else None,
            "smq": [] if smq in (None, "-") else [int(x) for x in smq.split(",")]}


class Offers:
    """what the server offered on the current connection, from the bytes it sent"""

    def __init__(self):
        self.buf = b""
        self.reset()

    def reset(self):
        self.buf = b""
        self.starttls = False
        self.mechs = set()
        self.bind = False
        self.session = False
        self.sm = False
        self.compression = False

    def feed(self, data):
        self.buf += data
        # complete <stream:features>…</stream:features> blocks only
        while True:
            i = self.buf.find(b"<stream:features")
            if i < 0:
                self.buf = self.buf[-32:]
                return
            j = self.buf.find(b"</stream:features>", i)
            k = self.buf.find(b"/>", i)
            if j < 0 and (k < 0 or k > self.buf.find(b">", i)):
                self.buf = self.buf[i:]
                return
            if j < 0:
                self.buf = self.buf[k + 2:]
                continue
            blk = self.buf[i:j]
            self.buf = self.buf[j + 18:]
            if b"<starttls" in blk and b"urn:ietf:params:xml:ns:xmpp-tls" in blk:
                self.starttls = True
            for m in re.finditer(rb"<mechanism>(.*?)</mechanism>", blk, re.S):
                # the offered name is the element's text (its string value, child elements ignored)
                txt = re.sub(rb"<[^>]*>", b"", m.group(1))
                self.mechs.add(txt.decode("latin1").upper())
            if b"<bind" in blk:
                self.bind = True
            if b"<session" in blk:
                self.session = True
            if b"<sm " in blk or b"<sm/" in blk:
                self.sm = True
            if b"<compression" in blk:
                self.compression = True


def monitor(ops, outs, pid, extras=None):
    """returns [(op index, message)] for the clauses of property `pid` (C02 / C03 / C05 / C13)"""
    fails = []
    flags = 0
    jid = b""
    ctype = "c"
    cert = False
    off = Offers()
    conn_open = False          # between an accepted connect and its DISCONNECT
    connected_ev = 0
    disc_ev = 0
    phase = 0                  # 0 start, 1 starttls sent, 2 auth sent, 3 bind/resume sent
    auth_seen = False
    bind_or_resume = False
    handshake_seen = False
    # C05: inbound count of the logical SM session, as the server knows it
    srv_sent = 0
    sm_active = False          # server has sent <enabled/> or <resumed/> on this connection
    pending_r = 0
    rxbuf = b""
    success_seen = False
    kind = ctype0 = "c"
    # scripts that answer requests the client could not write yet (transport blocked) are not
    # evidence about what the client had sent
    blocked = any(o.startswith("wr ") and o != "wr all" for o in ops)
    for i, (op, out) in enumerate(zip(ops, outs)):
        t = op.split(" ")
        success_now = False
        ln = parse_line(out)
        if ln is None:
            continue
        if t[0] == "new":
            jid = unhx(t[1]) or b""
            flags = int(t[3]) if ln["res"] == "rc 0" else 0
            ctype = ctype0 = t[4]
            cert = t[5] != "0"
            off.reset()
            conn_open = False
            sm_active = False
            srv_sent = 0
        if t[0] == "setflags" and ln["res"].startswith("rc 0"):
            flags = int(t[1])
        if t[0] == "setflags":
            m = re.match(r"rc (-?\d+) flags (\d+)", ln["res"])
            if m and pid in ("C13", "C02"):
                want_ok = (not conn_open and ln["st"] == "d" or ln["st"] == "d") and not (
                    int(t[1]) & F_DISABLE_TLS and int(t[1]) & (F_MANDATORY_TLS | F_LEGACY_SSL | F_TRUST_TLS)) and int(t[1]) < 256
                if m.group(1) == "0" and int(m.group(2)) != int(t[1]):
                    fails.append((i, "flags-not-read-back"))
                if m.group(1) == "0" and ln["st"] != "d":
                    fails.append((i, "flags-accepted-while-not-disconnected"))
        if t[0] == "utls" and pid == "C02" and flags & F_DISABLE_TLS and (ln["res"] == "rc 0" or ln["sec"]):
            fails.append((i, "tls-started-although-disabled"))
        if t[0] == "connect" and ln["res"] == "rc 0":
            kind = t[1] if len(t) > 1 else ctype0
            ctype = kind
            success_seen = False
            off.reset()
            conn_open = True
            connected_ev = disc_ev = 0
            phase = 0
            auth_seen = bind_or_resume = handshake_seen = False
            sm_active = False
            pending_r = 0
            rxbuf = b""
        if t[0] == "rx" and conn_open:
            data = unhx(t[1]) or b""
            off.feed(data)
            rxbuf += data
            if extras is not None:
                # what the REAL parser delivered as a top-level element (text inside an unfinished
                # or foreign element is not a <success/>)
                for l in (extras[i] if i < len(extras) else []):
                    if l.startswith("pe stanza (73756363657373 75726e3a696574663a706172616d733a786d6c3a6e733a786d70702d7361736c"):
                        success_now = True
            elif b"<success" in rxbuf and b"xmpp-sasl" in rxbuf:
                success_now = True      # (an op writes before it reads)
            # complete top-level elements the server sent (coarse scan, enough for counting)
            for m in re.finditer(rb"<(message|presence|iq|foo)\b[^>]*?(/>|>.*?</\1>)", rxbuf, re.S):
                pass
        # ---- what the client wrote during this op (before it read)
        for item in ln["tx"]:
            kind_ = item.split("/")[0]
            sec = item.endswith("/s")
            k = kind_.split(":")
            if pid == "C02":
                if flags & F_MANDATORY_TLS and k[0] in ("auth", "response", "legacy") and k[-1] == "1" and not sec:
                    fails.append((i, "auth-data-before-tls %s" % kind_[:40]))
                if flags & F_DISABLE_TLS and k[0] == "starttls":
                    fails.append((i, "starttls-although-disabled"))
                if k[0] == "auth" and k[1] == "PLAIN":
                    stronger = (off.mechs & STRONGER) | ({"EXTERNAL"} if (cert and "EXTERNAL" in off.mechs) else set())
                    if stronger:
                        fails.append((i, "plain-although-stronger-offered %s" % ",".join(sorted(stronger))))
                if k[0] == "legacy" and not (flags & F_LEGACY_AUTH):
                    fails.append((i, "legacy-auth-not-enabled"))
            if pid == "C03":
                if k[0] == "starttls" and not off.starttls:
                    fails.append((i, "starttls-not-offered"))
                if k[0] == "auth" and k[1].upper() not in off.mechs:
                    fails.append((i, "mechanism-not-offered %s" % k[1]))
                if k[0] in ("auth", "response") and success_seen and not blocked:
                    fails.append((i, "auth-after-success %s" % kind_[:30]))
                if k[0] == "compress" and not off.compression:
                    fails.append((i, "compress-not-offered"))
                if k[0] == "bind" and not off.bind:
                    fails.append((i, "bind-not-offered"))
                if k[0] == "session" and not off.session:
                    fails.append((i, "session-not-offered"))
                if k[0] in ("enable", "resume") and not off.sm:
                    fails.append((i, "%s-not-offered" % k[0]))
                if k[0] == "hdr":
                    dom = jid if ctype == "k" else jid.split(b"/")[0].split(b"@")[-1]
                    if unhx(k[1]) != dom:
                        fails.append((i, "header-to-not-domain"))
                    if k[2] != "-":
                        if not sec:
                            fails.append((i, "header-from-on-unsecured-stream"))
                        if unhx(k[2]) != jid.split(b"/")[0] or b"@" not in jid:
                            fails.append((i, "header-from-wrong"))
                if k[0] == "bind":
                    res = jid.split(b"/", 1)[1] if b"/" in jid else b""
                    want = "-" if not res else res.hex()
                    if k[1] != want:
                        fails.append((i, "bind-resource-mismatch"))
                if k[0] == "user" and not connected_ev:
                    fails.append((i, "user-stanza-on-wire-before-connected %s" % kind_[:40]))
                # RFC 6120 order
                order = {"starttls": 1, "auth": 2, "response": 2, "compress": 3, "resume": 4, "bind": 4, "session": 5,
                         "enable": 6}
                if k[0] in order:
                    if order[k[0]] < phase and not (k[0] in ("auth", "response") and phase == 2):
                        fails.append((i, "out-of-order %s after phase %d" % (k[0], phase)))
                    phase = max(phase, order[k[0]])
            if k[0] == "auth":
                auth_seen = True
            if k[0] in ("bind", "resume"):
                bind_or_resume = True
            if k[0] == "handshake":
                handshake_seen = True
        if success_now:
            success_seen = True
        # ---- notifications
        for e in ln["ev"]:
            if e in ("CONNECT", "RAW"):
                connected_ev += 1
                if pid in ("C03", "C13") and (e == "RAW") != (kind == "r"):
                    fails.append((i, "raw-on-nonraw" if e == "RAW" else "connect-on-raw"))
                if pid in ("C03", "C13") and connected_ev > 1:
                    fails.append((i, "connected-twice"))
                if pid == "C13" and disc_ev:
                    fails.append((i, "connect-after-disconnect"))
                if pid == "C03" and e == "CONNECT" and not blocked:
                    if ctype == "c" and not (auth_seen and bind_or_resume) and not (flags & F_LEGACY_AUTH):
                        fails.append((i, "connected-before-auth-and-bind"))
                    # … and the server must have answered: a bind result or <resumed/>
                    elif ctype == "c" and not (flags & F_LEGACY_AUTH) and not (
                            b"_xmpp_bind1" in rxbuf or b"<resumed" in rxbuf):
                        fails.append((i, "connected-without-bind-result-or-resumed"))
                    if ctype == "k" and not handshake_seen:
                        fails.append((i, "connected-before-handshake"))
            if e.startswith("DISCONNECT"):
                disc_ev += 1
                conn_open = False
                if pid == "C13" and disc_ev > 1:
                    fails.append((i, "double-disconnect"))
            if e.startswith("uh:") or e == "ut":
                if pid == "C03" and not connected_ev:
                    fails.append((i, "user-handler-before-connected"))
        if pid == "C13":
            if ln["st"] == "BAD":
                fails.append((i, "state-predicates-not-exclusive"))
            if ln["st"] == "c" and not connected_ev:
                fails.append((i, "is-connected-without-notification"))
            if ln["st"] == "d" and conn_open and not disc_ev and t[0] not in ("new",):
                fails.append((i, "disconnected-without-notification"))
            if t[0] == "release" and conn_open and not disc_ev:
                fails.append((i, "released-without-disconnect-notification"))
    return fails


# ------------------------------------------------------------------------------------------
# XEP-0198 monitors (C04 outbound, C05 inbound)

STANZA_ITEMS = ("user", "raw")
M32 = 1 << 32


def seq32(a, n):
    return [(a + k) % M32 for k in range(n)]
NS_SM_B = b"urn:xmpp:sm:3"


class TopLevel:
    """incremental scan of what the server sent on one stream: complete depth-1 elements, in
    order, as (name, attrs-bytes, is_sm_namespace).  Built for the generator's XML (no CDATA,
    no '>' inside attribute values); anything it does not understand switches it off."""

    TAG = re.compile(rb"<(\?[^>]*\?|/?[A-Za-z_:][^\s/>]*)([^>]*?)(/?)>", re.S)

    def __init__(self):
        self.reset()

    def reset(self):
        self.buf = b""
        self.depth = 0          # 0 = before the stream header
        self.sane = True
        self.cur = None
        self.closed = False

    def feed(self, data):
        out = []
        if not self.sane or self.closed:
            return out
        self.buf += data
        while True:
            i = self.buf.find(b"<")
            if i < 0:
                self.buf = b""
                return out
            m = self.TAG.match(self.buf, i)
            if not m:
                if b">" in self.buf[i:]:
                    self.sane = False
                self.buf = self.buf[i:]
                return out
            name, attrs, selfclose = m.group(1), m.group(2), m.group(3) == b"/"
            self.buf = self.buf[m.end():]
            if name.startswith(b"?"):
                continue
            if name.startswith(b"/"):
                if self.depth == 1:
                    self.closed = True       # </stream:stream>
                    return out
                self.depth -= 1
                if self.depth == 1 and self.cur is not None:
                    out.append(self.cur)
                    self.cur = None
                if self.depth < 1:
                    self.sane = False
                    return out
                continue
            if self.depth == 0:
                if selfclose:
                    self.sane = False
                    return out
                self.depth = 1
                continue
            if self.depth == 1:
                el = (name, attrs, NS_SM_B in attrs)
                if selfclose:
                    out.append(el)
                else:
                    self.cur = el
                    self.depth = 2
                continue
            if not selfclose:
                self.depth += 1


def _attr(attrs, key):
    m = re.search(rb"\b" + key + rb"\s*=\s*(['\"])(.*?)\1", attrs, re.S)
    return m.group(2) if m else None


def pe_events(extra):
    """(name, attrs-dict, is_sm) of the stanzas the real parser delivered during one op"""
    evs = []
    for l in extra or []:
        if not l.startswith("pe stanza ("):
            continue
        tok = l[len("pe stanza ("):].split(" ")
        try:
            name = bytes.fromhex(tok[0])
            ns = b"" if tok[1] == "-" else bytes.fromhex(tok[1])
            attrs = {}
            a = tok[2].rstrip(")") if len(tok) > 2 else "-"
            if a != "-":
                for kv in a.split(";"):
                    k, _, v = kv.partition("=")
                    attrs[bytes.fromhex(k)] = b"" if v in (".", "") else bytes.fromhex(v)
        except ValueError:
            continue
        evs.append((name, attrs, ns == NS_SM_B))
    return evs


def monitor_sm(ops, outs, pid, extras=None):
    """C04: numbering / retention / release / retransmission of outbound stanzas;
       C05: the inbound count reported in <a/> and <resume/>, one <a/> per <r/>."""
    fails = []
    scan = TopLevel()
    log = {}                 # number -> item text, for the current logical SM session
    prev = None              # previous parsed line
    expect_resend = []       # item texts that must be the next counted writes, in order
    inbound = 0              # non-SM stanzas dispatched on the logical session since <enabled/>
    active_in = False        # the client accepted <enabled/> or <resumed/> on this logical session
    pending_a = []           # h values the <a/> answers still to be written must carry, in order
    last_inbound_at_loss = None
    conn_open = False
    active_conn = False      # <enabled/> or <resumed/> accepted on the current connection
    counting = False         # inbound stanzas count: <enabled/> or <resumed/> seen on this connection
    carry = []               # retransmissions still owed from an earlier connection
    wr_all = True
    poisoned = False         # the server resumed with an h it cannot have counted: numbers are void
    for i, (op, out) in enumerate(zip(ops, outs)):
        t = op.split(" ")
        ln = parse_line(out)
        if ln is None or ln["sent"] is None:
            prev = ln if ln and ln["sent"] is not None else prev
            if t[0] == "new":
                log, expect_resend, inbound, active_in, pending_a, prev, poisoned, carry = {}, [], 0, False, [], None, False, []
            continue
        if t[0] == "new":
            log, expect_resend, inbound, active_in, pending_a, prev, poisoned, carry = {}, [], 0, False, [], None, False, []
        if t[0] == "connect" and ln["res"] == "rc 0":
            scan.reset()
            pending_a = []
            conn_open = True
            active_conn = False
            counting = False
        en_before = prev is not None and prev["smf"] is not None and prev["smf"][1] == "1"
        sent_before = prev["sent"] if prev else 0
        smq_before = prev["smq"] if prev else []
        # ---- what was written during this op (an op writes before it reads)
        counted = [it for it in ln["tx"] if it.split(":")[0].split("/")[0] in STANZA_ITEMS]
        n_sent = sent_before
        for it in ln["tx"]:
            k = it.split("/")[0].split(":")
            if k[0] in STANZA_ITEMS and en_before and active_conn:
                txt = it.rsplit("/", 1)[0]
                if pid == "C04":
                    if expect_resend:
                        want = expect_resend.pop(0)
                        if want != txt:
                            fails.append((i, "retransmission-order want %s got %s" % (want[:30], txt[:30])))
                            expect_resend = []
                log[n_sent] = txt
                n_sent = (n_sent + 1) % M32
            if k[0] == "a" and pid == "C05":
                if not pending_a:
                    fails.append((i, "unrequested-ack"))
                else:
                    # requests that arrived while it is not known whether SM was on (None) may have
                    # gone unanswered: skip them when the answer fits the first definite request
                    j = 0
                    while j < len(pending_a) and pending_a[j] is None:
                        j += 1
                    if j < len(pending_a) and j > 0 and int(k[1]) == pending_a[j] % (1 << 32):
                        del pending_a[:j]
                    want = pending_a.pop(0)
                    if want is not None and int(k[1]) != want % (1 << 32):
                        fails.append((i, "ack-h want %d got %s" % (want, k[1])))
            if k[0] == "resume" and pid == "C05":
                if last_inbound_at_loss is not None and int(k[2]) != last_inbound_at_loss % (1 << 32):
                    fails.append((i, "resume-h want %d got %s" % (last_inbound_at_loss, k[2])))
        # ---- what was read during this op
        sm_event = None
        n_ev = 0
        if t[0] == "rx" and conn_open and ln["st"] != "d" or (t[0] == "rx" and conn_open):
            data = unhx(t[1]) or b""
            if b"<?xml" in data or b"<stream:stream" in data:
                # a new stream header: the client reset its parser before reading it
                j = data.find(b"<?xml") if b"<?xml" in data else data.find(b"<stream:stream")
                for el in scan.feed(data[:j]):
                    pass
                scan.reset()
                data = data[j:]
            if extras is not None:
                evl = pe_events(extras[i] if i < len(extras) else [])
                geth = lambda at: at.get(b"h")
            else:
                evl = scan.feed(data)
                geth = lambda at: _attr(at, b"h")
            n_ev = len(evl)
            for (name, attrs, is_sm) in evl:
                if is_sm and name in (b"enabled", b"resumed", b"failed", b"a", b"r"):
                    if name == b"r":
                        pending_a.append(inbound if counting else None)
                    elif name == b"a":
                        sm_event = ("a", geth(attrs))
                    else:
                        sm_event = (name.decode(), geth(attrs))
                        # (only answers to what the client asked for count)
                        if name == b"enabled" and en_before and not counting:
                            inbound = 0
                            active_in = counting = True
                        elif name == b"failed":
                            active_in = counting = False
                        elif name == b"resumed" and prev and prev["smf"] and prev["smf"][3] == "1" and not counting:
                            active_in = counting = True
                elif not is_sm and counting:
                    inbound += 1
        en_after = ln["smf"] is not None and ln["smf"][1] == "1"
        if pid == "C05" and counting and en_after and not sm_event and (extras is not None or scan.sane) \
                and ln["handled"] is not None:
            if ln["handled"] != inbound % (1 << 32) and ln["st"] != "d":
                fails.append((i, "handled-count want %d got %d" % (inbound, ln["handled"])))
                inbound = ln["handled"]
        if pid == "C04" and poisoned:
            expect_resend = []
            carry = []
        if pid == "C04" and not poisoned:
            smq = ln["smq"]
            # numbers retained are consecutive and end at sent-1
            if smq and active_conn and sm_event is None and smq != seq32(ln["sent"] - len(smq), len(smq)):
                fails.append((i, "retained-not-contiguous sent %d q %s" % (ln["sent"], smq[:6])))
            if en_before and en_after and sm_event is None and active_conn:
                # counting: exactly the stanzas written
                if ln["sent"] != n_sent:
                    fails.append((i, "miscounted sent want %d got %d" % (n_sent, ln["sent"])))
                # retention: everything counted and not acknowledged is still there
                newly = seq32(sent_before, (n_sent - sent_before) % M32)
                want = smq_before + newly
                if smq != want:
                    fails.append((i, "retained-lost want %s got %s" % (want[:6], smq[:6])))
            if sm_event and sm_event[0] == "a" and en_before and en_after and active_conn:
                hv = sm_event[1]
                have = smq_before + seq32(sent_before, (n_sent - sent_before) % M32)
                # an honest acknowledgement: h is one of the retained numbers or the next number
                if hv is not None and hv.isdigit() and (int(hv) in have or int(hv) == n_sent) and len(hv) < 10:
                    want = have[have.index(int(hv)):] if int(hv) in have else []
                    if smq != want:
                        fails.append((i, "ack-release want %s got %s" % (want[:6], smq[:6])))
            if sm_event and sm_event[0] == "resumed" and prev and prev["smf"][3] == "1" and en_after:
                hv = sm_event[1]
                if hv is not None and hv.isdigit() and len(hv) < 10 and ln["st"] != "d" and \
                        (int(hv) in smq_before or int(hv) == sent_before):
                    k0 = smq_before.index(int(hv)) if int(hv) in smq_before else len(smq_before)
                    # (retransmissions that a previous connection did not get round to writing are
                    #  still owed: they are older than everything retained since)
                    expect_resend = carry + [log[n] for n in smq_before[k0:] if n in log]
                    carry = []
                    if ln["sent"] != int(hv):
                        fails.append((i, "resumed-count want %s got %d" % (hv.decode(), ln["sent"])))
                else:
                    poisoned = True
        if pid == "C04" and not poisoned and sm_event and sm_event[0] == "failed" and prev and prev["smf"][3] == "1":
            hv = sm_event[1]
            inf = b"item-not-found" in (unhx(t[1]) or b"")
            if inf and hv is not None and hv.isdigit() and len(hv) < 10 and \
                    (int(hv) in smq_before or int(hv) == sent_before):
                k0 = smq_before.index(int(hv)) if int(hv) in smq_before else len(smq_before)
                if ln["smq"] != smq_before[k0:]:
                    fails.append((i, "failed-release want %s got %s" % (smq_before[k0:][:6], ln["smq"][:6])))
            elif hv is None and ln["smq"] != smq_before and b"item-not-found" in (unhx(t[1]) or b""):
                fails.append((i, "failed-lost want %s got %s" % (smq_before[:6], ln["smq"][:6])))
        if pid == "C04" and sm_event and sm_event[0] == "enabled" and en_after and ln["st"] != "d" \
                and not active_conn:       # (a stray <enabled/> on an established session is ignored)
            # a new logical session: what was still retained is sent again, first, in order
            expect_resend = [] if poisoned else [log[n] for n in smq_before if n in log]
            log = {}
            poisoned = False
        if sm_event and sm_event[0] in ("enabled", "resumed") and en_after:
            active_conn = True
        if ln["st"] == "d" and conn_open:
            conn_open = False
            active_conn = False
            # (events after the one that made the client disconnect were not dispatched)
            last_inbound_at_loss = inbound if active_in and n_ev <= 1 else None
            if n_ev > 1 and ln["handled"] is not None:
                inbound = ln["handled"]
            pending_a = []
            if not (ln["smf"] and ln["smf"][2] == "1"):
                # not resumable: a later session starts from scratch
                expect_resend = []
                carry = []
            elif pid == "C04":
                carry = carry + expect_resend
                expect_resend = []
        if pid == "C04" and t[0] == "wr":
            wr_all = op == "wr all"
        if pid == "C04" and expect_resend and active_conn and t[0] == "run" and wr_all and ln["q"] == 0 \
                and not ln["tx"] and ln["st"] == "c":
            # everything queued has been written, the transport accepts everything, and what is owed
            # is not there
            fails.append((i, "retransmission-lost %s" % expect_resend[0][:30]))
            expect_resend = []
        prev = ln
    return fails
