"""Model-free monitors over the observable transcript of engine `conn` (what the server sent — taken
from the ops — and what the client wrote / notified — taken from the implementation's output).
They state C02, C03, C05, C13 (and the honest-server part of C04) directly, independently of the
Lean model."""
import re

from .common import unhx

PAT = re.compile(r"^= (.*?) \| tx (\S+) \| ev (\S+) \| st (\S+) neg (\d) sec (\d) q (-?\d+)(?: sm (\S+)(?: s(\d+) h(\d+) q(\S+))?)?$")

F_DISABLE_TLS, F_MANDATORY_TLS, F_LEGACY_SSL, F_TRUST_TLS, F_LEGACY_AUTH, F_DISABLE_SM, F_COMPRESS, F_COMP_DR = \
    1, 2, 4, 8, 16, 32, 64, 128

STRONGER = {"DIGEST-MD5", "SCRAM-SHA-1", "SCRAM-SHA-256", "SCRAM-SHA-512", "SCRAM-SHA-1-PLUS",
            "SCRAM-SHA-256-PLUS", "SCRAM-SHA-512-PLUS"}


def parse_line(out):
    m = PAT.match(out)
    if not m:
        return None
    res, tx, ev, st, neg, sec, q, smf, s, h, smq = m.groups()
    return {"res": res, "tx": [] if tx == "-" else tx.split(","), "ev": [] if ev == "-" else ev.split(","),
            "st": st, "neg": neg == "1", "sec": sec == "1", "q": int(q), "smf": smf,
            "sent": int(s) if s is not None else None, "handled": int(h) if h is not None else None,
            "smq": [] if smq in (None, "-") else [int(x) for x in smq.split(",")]}


class Offers:
    """what the server offered on the current connection, from the bytes it sent"""

    def __init__(self):
        self.buf = b""
        self.reset()

    def reset(self):
        self.buf = b""
        self.starttls = False
        self.mechs = set()
        self.bind = False
        self.session = False
        self.sm = False
        self.compression = False

    def feed(self, data):
        self.buf += data
        # complete <stream:features>…</stream:features> blocks only
        while True:
            i = self.buf.find(b"<stream:features")
            if i < 0:
                self.buf = self.buf[-32:]
                return
            j = self.buf.find(b"</stream:features>", i)
            k = self.buf.find(b"/>", i)
            if j < 0 and (k < 0 or k > self.buf.find(b">", i)):
                self.buf = self.buf[i:]
                return
            if j < 0:
                self.buf = self.buf[k + 2:]
                continue
            blk = self.buf[i:j]
            self.buf = self.buf[j + 18:]
            if b"<starttls" in blk and b"urn:ietf:params:xml:ns:xmpp-tls" in blk:
                self.starttls = True
            for m in re.finditer(rb"<mechanism>([^<]*)</mechanism>", blk):
                self.mechs.add(m.group(1).decode("latin1").upper())
            if b"<bind" in blk:
                self.bind = True
            if b"<session" in blk:
                self.session = True
            if b"<sm " in blk or b"<sm/" in blk:
                self.sm = True
            if b"<compression" in blk:
                self.compression = True


def monitor(ops, outs, pid):
    """returns [(op index, message)] for the clauses of property `pid` (C02 / C03 / C05 / C13)"""
    fails = []
    flags = 0
    jid = b""
    ctype = "c"
    cert = False
    off = Offers()
    conn_open = False          # between an accepted connect and its DISCONNECT
    connected_ev = 0
    disc_ev = 0
    phase = 0                  # 0 start, 1 starttls sent, 2 auth sent, 3 bind/resume sent
    auth_seen = False
    bind_or_resume = False
    handshake_seen = False
    # C05: inbound count of the logical SM session, as the server knows it
    srv_sent = 0
    sm_active = False          # server has sent <enabled/> or <resumed/> on this connection
    pending_r = 0
    rxbuf = b""
    success_seen = False
    kind = ctype0 = "c"
    # scripts that answer requests the client could not write yet (transport blocked) are not
    # evidence about what the client had sent
    blocked = any(o.startswith("wr ") and o != "wr all" for o in ops)
    for i, (op, out) in enumerate(zip(ops, outs)):
        t = op.split(" ")
        success_now = False
        ln = parse_line(out)
        if ln is None:
            continue
        if t[0] == "new":
            jid = unhx(t[1]) or b""
            flags = int(t[3]) if ln["res"] == "rc 0" else 0
            ctype = ctype0 = t[4]
            cert = t[5] == "1"
            off.reset()
            conn_open = False
            sm_active = False
            srv_sent = 0
        if t[0] == "setflags" and ln["res"].startswith("rc 0"):
            flags = int(t[1])
        if t[0] == "setflags":
            m = re.match(r"rc (-?\d+) flags (\d+)", ln["res"])
            if m and pid == "C13":
                want_ok = (not conn_open and ln["st"] == "d" or ln["st"] == "d") and not (
                    int(t[1]) & F_DISABLE_TLS and int(t[1]) & (F_MANDATORY_TLS | F_LEGACY_SSL | F_TRUST_TLS)) and int(t[1]) < 256
                if m.group(1) == "0" and int(m.group(2)) != int(t[1]):
                    fails.append((i, "flags-not-read-back"))
                if m.group(1) == "0" and ln["st"] != "d":
                    fails.append((i, "flags-accepted-while-not-disconnected"))
        if t[0] == "connect" and ln["res"] == "rc 0":
            kind = t[1] if len(t) > 1 else ctype0
            ctype = kind
            success_seen = False
            off.reset()
            conn_open = True
            connected_ev = disc_ev = 0
            phase = 0
            auth_seen = bind_or_resume = handshake_seen = False
            sm_active = False
            pending_r = 0
            rxbuf = b""
        if t[0] == "rx" and conn_open:
            data = unhx(t[1]) or b""
            off.feed(data)
            rxbuf += data
            if b"<success" in rxbuf and b"xmpp-sasl" in rxbuf:
                success_now = True      # (an op writes before it reads)
            # complete top-level elements the server sent (coarse scan, enough for counting)
            for m in re.finditer(rb"<(message|presence|iq|foo)\b[^>]*?(/>|>.*?</\1>)", rxbuf, re.S):
                pass
        # ---- what the client wrote during this op (before it read)
        for item in ln["tx"]:
            kind_ = item.split("/")[0]
            sec = item.endswith("/s")
            k = kind_.split(":")
            if pid == "C02":
                if flags & F_MANDATORY_TLS and k[0] in ("auth", "response", "legacy") and k[-1] == "1" and not sec:
                    fails.append((i, "auth-data-before-tls %s" % kind_[:40]))
                if flags & F_DISABLE_TLS and k[0] == "starttls":
                    fails.append((i, "starttls-although-disabled"))
                if k[0] == "auth" and k[1] == "PLAIN":
                    stronger = (off.mechs & STRONGER) | ({"EXTERNAL"} if (cert and "EXTERNAL" in off.mechs) else set())
                    if stronger:
                        fails.append((i, "plain-although-stronger-offered %s" % ",".join(sorted(stronger))))
                if k[0] == "legacy" and not (flags & F_LEGACY_AUTH):
                    fails.append((i, "legacy-auth-not-enabled"))
            if pid == "C03":
                if k[0] == "starttls" and not off.starttls:
                    fails.append((i, "starttls-not-offered"))
                if k[0] == "auth" and k[1].upper() not in off.mechs:
                    fails.append((i, "mechanism-not-offered %s" % k[1]))
                if k[0] in ("auth", "response") and success_seen and not blocked:
                    fails.append((i, "auth-after-success %s" % kind_[:30]))
                if k[0] == "compress" and not off.compression:
                    fails.append((i, "compress-not-offered"))
                if k[0] == "bind" and not off.bind:
                    fails.append((i, "bind-not-offered"))
                if k[0] == "session" and not off.session:
                    fails.append((i, "session-not-offered"))
                if k[0] in ("enable", "resume") and not off.sm:
                    fails.append((i, "%s-not-offered" % k[0]))
                if k[0] == "hdr":
                    dom = jid if ctype == "k" else jid.split(b"/")[0].split(b"@")[-1]
                    if unhx(k[1]) != dom:
                        fails.append((i, "header-to-not-domain"))
                    if k[2] != "-":
                        if not sec:
                            fails.append((i, "header-from-on-unsecured-stream"))
                        if unhx(k[2]) != jid.split(b"/")[0] or b"@" not in jid:
                            fails.append((i, "header-from-wrong"))
                if k[0] == "bind":
                    res = jid.split(b"/", 1)[1] if b"/" in jid else b""
                    want = "-" if not res else res.hex()
                    if k[1] != want:
                        fails.append((i, "bind-resource-mismatch"))
                if k[0] == "user" and not connected_ev:
                    fails.append((i, "user-stanza-on-wire-before-connected %s" % kind_[:40]))
                # RFC 6120 order
                order = {"starttls": 1, "auth": 2, "response": 2, "compress": 3, "resume": 4, "bind": 4, "session": 5,
                         "enable": 6}
                if k[0] in order:
                    if order[k[0]] < phase and not (k[0] in ("auth", "response") and phase == 2):
                        fails.append((i, "out-of-order %s after phase %d" % (k[0], phase)))
                    phase = max(phase, order[k[0]])
            if k[0] == "auth":
                auth_seen = True
            if k[0] in ("bind", "resume"):
                bind_or_resume = True
            if k[0] == "handshake":
                handshake_seen = True
        if success_now:
            success_seen = True
        # ---- notifications
        for e in ln["ev"]:
            if e in ("CONNECT", "RAW"):
                connected_ev += 1
                if pid in ("C03", "C13") and (e == "RAW") != (kind == "r"):
                    fails.append((i, "raw-on-nonraw" if e == "RAW" else "connect-on-raw"))
                if pid in ("C03", "C13") and connected_ev > 1:
                    fails.append((i, "connected-twice"))
                if pid == "C13" and disc_ev:
                    fails.append((i, "connect-after-disconnect"))
                if pid == "C03" and e == "CONNECT" and not blocked:
                    if ctype == "c" and not (auth_seen and bind_or_resume) and not (flags & F_LEGACY_AUTH):
                        fails.append((i, "connected-before-auth-and-bind"))
                    if ctype == "k" and not handshake_seen:
                        fails.append((i, "connected-before-handshake"))
            if e.startswith("DISCONNECT"):
                disc_ev += 1
                conn_open = False
                if pid == "C13" and disc_ev > 1:
                    fails.append((i, "double-disconnect"))
            if e.startswith("uh:") or e == "ut":
                if pid == "C03" and not connected_ev:
                    fails.append((i, "user-handler-before-connected"))
        if pid == "C13":
            if ln["st"] == "BAD":
                fails.append((i, "state-predicates-not-exclusive"))
            if ln["st"] == "c" and not connected_ev:
                fails.append((i, "is-connected-without-notification"))
            if ln["st"] == "d" and conn_open and not disc_ev and t[0] not in ("new",):
                fails.append((i, "disconnected-without-notification"))
            if t[0] == "release" and conn_open and not disc_ev:
                fails.append((i, "released-without-disconnect-notification"))
    return fails
