"""C17 — built-in digests.  Engine `hash` (pure)."""
import hashlib
import hmac as pyhmac

from .common import hx, unhx, rbytes, load_corpus

ID = "C17"
ENGINE = "hash"
VARIANT = "std"
STATEFUL = False
LEVEL = "proof"
FILES = ["sha1.c", "sha256.c", "sha512.c", "md5.c", "scram.c", "crypto.c"]
TRUSTED = ["models Strophe/Model/Hash*.lean tied to sha1.c/sha256.c/sha512.c/md5.c/scram.c(crypto_HMAC) by "
           "differential execution (engine hash), digests additionally compared with Python hashlib/hmac",
           "compression functions are shared between model and Spec/Hash.lean; validated by FIPS/RFC test "
           "vectors and the run-time three-way comparison"]
ASSUMPTIONS = ["little-endian host (as built here)",
               "bit counters near 2^32 / 2^64 are reached by injecting a block-aligned counter into a fresh "
               "context (real 512 MiB streams only in the thorough tier)"]
RULE = ("every length 0..300 with random partitions, random lengths to 64 KiB, block-boundary lengths, injected "
        "bit counters straddling 2^32 and 2^64; distinct = tag (alg, len class mod block, #chunks class, "
        "inject class)")

ALGS = {"sha1": (hashlib.sha1, 64), "sha256": (hashlib.sha256, 64), "sha512": (hashlib.sha512, 128),
        "md5": (hashlib.md5, 64)}


def corpus():
    return load_corpus(ID)


def partition(rng, data):
    """random partition of data into chunks, including empty ones"""
    if rng.random() < 0.15:
        return [data]
    chunks = []
    i = 0
    style = rng.choice(["small", "block", "mixed", "bytes"])
    while i < len(data):
        if style == "bytes":
            n = 1
        elif style == "small":
            n = rng.randrange(0, 9)
        elif style == "block":
            n = rng.choice([63, 64, 65, 127, 128, 129, 55, 56, 57, 111, 112, 113, 119, 120, 0])
        else:
            n = rng.choice([0, 1, 3, 64, 128, 200, 1000, rng.randrange(0, 5000)])
        chunks.append(data[i:i + n])
        i += n
    if rng.random() < 0.3:
        chunks.insert(rng.randrange(len(chunks) + 1), b"")
    # (an empty message is one empty chunk, not no chunk at all: the op needs its argument)
    return chunks[:4000] or [b""]


def generate(rng, tier, override=0):
    ops = []
    algs = list(ALGS)
    maxlen = 300
    if override:
        maxlen = 40
    for ln in range(0, maxlen + 1):
        data = rbytes(rng, ln)
        for a in algs:
            ops.append("%s - %s" % (a, " ".join(hx(c) for c in partition(rng, data))))
    nrand = override or (300 if tier == "quick" else 6000)
    for i in range(nrand):
        ln = rng.choice([rng.randrange(0, 2000), rng.randrange(0, 65536), 64 * rng.randrange(1, 40) + rng.choice([-1, 0, 1]),
                         128 * rng.randrange(1, 20) + rng.choice([-9, -8, -1, 0, 1])])
        data = rbytes(rng, max(0, ln))
        a = rng.choice(algs)
        ops.append("%s - %s" % (a, " ".join(hx(c) for c in partition(rng, data))))
    # injected counters: block aligned, straddling 2^32 and 2^64 bits
    for i in range(override or (200 if tier == "quick" else 3000)):
        a = rng.choice(algs)
        bs = ALGS[a][1] * 8
        base = rng.choice([1 << 32, 1 << 32, 1 << 33, 1 << 35, 1 << 64, (1 << 32) * rng.randrange(1, 1 << 20)])
        inj = (base - bs * rng.randrange(0, 6)) % (1 << 64)
        inj -= inj % bs
        data = rbytes(rng, rng.choice([0, 1, 63, 64, 65, 128, 129, 300, 1000]))
        ops.append("%s %x %s" % (a, inj, " ".join(hx(c) for c in partition(rng, data))))
    for i in range(override or (300 if tier == "quick" else 5000)):
        a = rng.choice(["sha1", "sha256", "sha512"])
        kl = rng.choice([0, 1, 20, 32, 63, 64, 65, 127, 128, 129, 200, rng.randrange(0, 400)])
        ops.append("hmac %s %s %s" % (a, hx(rbytes(rng, kl)), hx(rbytes(rng, rng.randrange(0, 300)))))
    for i in range(override or (200 if tier == "quick" else 3000)):
        data = rbytes(rng, rng.randrange(0, 400))
        ops.append("sha1api " + " ".join(hx(c) for c in partition(rng, data)))
        ops.append("sha1one " + hx(data))
    return [ops[i:i + 400] for i in range(0, len(ops), 400)]


def py_oracle(ops, outs):
    fails = []
    for i, (op, out) in enumerate(zip(ops, outs)):
        t = op.split(" ")
        if t[0] in ALGS:
            if t[1] != "-":
                continue  # injected counter: no real message; checked by correspondence only
            data = b"".join(unhx(c) for c in t[2:])
            fn, bs = ALGS[t[0]]
            want = "= %s %x %d" % (fn(data).hexdigest(), (8 * len(data)) % (1 << 64), len(data) % bs)
        elif t[0] == "hmac":
            fn = ALGS[t[1]][0]
            want = "= " + pyhmac.new(unhx(t[2]), unhx(t[3]), fn).hexdigest()
        elif t[0] in ("sha1api", "sha1one"):
            data = b"".join(unhx(c) for c in t[1:])
            d = hashlib.sha1(data)
            want = "= %s %s" % (d.hexdigest().encode().hex(), d.hexdigest())
        else:
            continue
        if out != want:
            fails.append((i, "digest-mismatch %s…: got %s want %s" % (op[:40], out[:90], want[:90])))
    return fails


def signature(case, i, what):
    op = case.ops[i] if i < len(case.ops) else "?"
    t = op.split(" ")
    return "%s:%s:%s:%s" % (ID, t[0], "inj" if (len(t) > 1 and t[0] in ALGS and t[1] != "-") else "msg",
                            what.split(" ")[0] if not what.startswith("ORACLE-FAIL") else what.split(" ")[1])


def tags(case, outs):
    res = []
    for op in case.ops:
        t = op.split(" ")
        if t[0] in ALGS:
            chunks = t[2:]
            total = sum(0 if c == "." else len(c) // 2 for c in chunks)
            bs = ALGS[t[0]][1]
            res.append("%s:r%d:%s:c%s:%s" % (t[0], total % bs if total % bs in (0, 1, bs - 9, bs - 8, bs - 1, 55, 56, 111, 112) else -1,
                                             "big" if total > 4 * bs else "small",
                                             min(len(chunks), 3), "inj" if t[1] != "-" else "msg"))
        elif t[0] == "hmac":
            kl = 0 if t[2] == "." else len(t[2]) // 2
            res.append("hmac:%s:k%s" % (t[1], "0" if kl == 0 else ("le64" if kl <= 64 else ("le128" if kl <= 128 else "gt128"))))
        else:
            res.append(t[0] + ":c%d" % min(len(t) - 1, 3))
    return res
