"""C16 — persisted SM state.  Engine `smblob` (real conn object; restore/serialize + queue ops)."""
import re
import struct

from .common import hx, unhx, rbytes, load_corpus
from . import c06

ID = "C16"
ENGINE = "smblob"
VARIANT = "std"
STATEFUL = True
LEVEL = "proof"
FILES = ["conn.c"]
TRUSTED = ["model Strophe/Model/SmBlob.lean (+ SendQueue.lean) tied to xmpp_conn_restore_sm_state / sm_state_serialize "
           "(conn.c) by differential execution (engine smblob): return code, both queues with all fields, counters, "
           "id and SM flags of the real connection object are compared after EVERY op; restore input is an exact-size "
           "heap copy under ASan"]
ASSUMPTIONS = ["restore target is a fresh connection object (the property's case); blobs are produced by the real "
               "serializer from states built with real queue operations, then mutated",
               "allocation failures not modelled"]
RULE = ("histories: build an SM-resumable state with random queue ops, serialise through the SM callback, restore the "
        "blob (or a mutation: truncation at every length, appended bytes, flipped tags, forged lengths/counts up to "
        "2^32-1, NUL in id) into a fresh connection, then random queue ops / release; distinct = tag (op, rc, mutation class)")

TAGS = [0x1a, 0x7a, 0x9a, 0xba]


def corpus():
    return load_corpus(ID)


def py_serialize(sent, handled, sid, sendq, smq):
    b = b"\x1a\0\0\0\0" + b"\x1a" + struct.pack(">I", sent) + b"\x1a" + struct.pack(">I", handled)
    b += b"\x7a" + struct.pack(">I", len(sid)) + sid
    b += b"\x9a" + struct.pack(">I", len(sendq))
    for t in sendq:
        b += b"\x7a" + struct.pack(">I", len(t)) + t
    b += b"\xba" + struct.pack(">I", len(smq))
    for h, t in smq:
        b += b"\x1a" + struct.pack(">I", h) + b"\x7a" + struct.pack(">I", len(t)) + t
    return b


def py_parse(b):
    """strict reference parser: returns the state or None"""
    try:
        if len(b) < 30 or b[:5] != b"\x1a\0\0\0\0":
            return None
        pos = 5

        def u32(tag):
            nonlocal pos
            if pos + 5 > len(b) or b[pos] != tag:
                raise ValueError
            v = struct.unpack(">I", b[pos + 1:pos + 5])[0]
            pos += 5
            return v

        def string():
            nonlocal pos
            n = u32(0x7a)
            if pos + n > len(b):
                raise ValueError
            s = b[pos:pos + n]
            pos += n
            return s
        sent = u32(0x1a)
        handled = u32(0x1a)
        sid = string()
        if b"\0" in sid:
            return None
        n = u32(0x9a)
        sendq = []
        for _ in range(n):
            sendq.append(string())
        m = u32(0xba)
        smq = []
        for _ in range(m):
            h = u32(0x1a)
            smq.append((h, string()))
        if pos != len(b):
            return None
        return (sent, handled, sid, sendq, smq)
    except (ValueError, struct.error, IndexError):
        return None


def rblob(rng):
    sid = rbytes(rng, rng.choice([0, 1, 3, 8, 20]), list(range(1, 256)))
    nq = rng.choice([0, 0, 1, 2, 3, 5])
    nm = rng.choice([0, 0, 1, 2, 4])
    sendq = [c06.rdata(rng, nul_ok=False) for _ in range(nq)]   # dropped texts come back as C strings
    base = rng.choice([0, 1, 7, 2**32 - 3])
    smq = [((base + i) % 2**32, c06.rdata(rng)) for i in range(nm)]
    return py_serialize(rng.choice([0, 5, base + nm, 2**32 - 1]) % 2**32, rng.choice([0, 3, 2**31, 2**32 - 1]),
                        sid, sendq, smq)


def mutate(rng, b):
    b = bytearray(b)
    if len(b) < 2:
        return bytes(b) + rbytes(rng, 3), "append"
    k = rng.random()
    if k < 0.30:
        return bytes(b[:rng.randrange(0, len(b) + 1)]), "trunc"
    if k < 0.42:
        return bytes(b) + rbytes(rng, rng.choice([1, 1, 4, 5, 8, 30])), "append"
    if k < 0.60:
        idx = [i for i in range(len(b)) if b[i] in TAGS]
        if idx:
            i = rng.choice(idx)
            b[i] = rng.choice(TAGS + [0, 0xff])
        return bytes(b), "tag"
    if k < 0.85:
        # forge a length / count field (the 4 bytes after some tag)
        idx = [i for i in range(5, len(b) - 4) if b[i] in TAGS]
        if idx:
            i = rng.choice(idx)
            v = rng.choice([0, 1, 2, 255, 65536, 2**31, 2**32 - 1, struct.unpack(">I", b[i + 1:i + 5])[0] + rng.choice([-1, 1])]) % 2**32
            b[i + 1:i + 5] = struct.pack(">I", v)
        return bytes(b), "len"
    if k < 0.92:
        j = rng.randrange(len(b))
        b[j] = 0
        return bytes(b), "nul"
    j = rng.randrange(len(b))
    b[j] = rng.randrange(256)
    return bytes(b), "byte"


def queue_ops(rng, n):
    ops = []
    for _ in range(n):
        k = rng.random()
        if k < 0.3:
            ops.append("su " + hx(c06.rdata(rng, nul_ok=False)))
        elif k < 0.4:
            ops.append("sl " + hx(c06.rdata(rng)))
        elif k < 0.6:
            ops.append("w " + c06.rsched(rng))
        elif k < 0.72:
            ops.append("dropo")
        elif k < 0.84:
            ops.append("dropy")
        elif k < 0.92:
            ops.append("len")
        elif k < 0.97:
            ops.append("ser")
        else:
            ops.append("disc")
    return ops


def gen_case(rng):
    ops = []
    k = rng.random()
    if k < 0.35:
        # native state -> serialise (blob printed; the python oracle checks it parses back to the same state)
        ops.append("smid " + hx(rbytes(rng, rng.choice([0, 1, 4, 12]), list(range(1, 256)))))
        if rng.random() < 0.5:
            ops.append("handled %d" % rng.choice([0, 1, 77, 2**32 - 1]))
        if rng.random() < 0.5:
            ops.append("sentnr %d" % rng.choice([0, 1, 2**32 - 2]))
        ops += queue_ops(rng, rng.randrange(2, 20))
        ops.append("ser")
        return ops
    blob = rblob(rng)
    ops.append("fresh")
    if k < 0.60:
        ops.append("restore " + hx(blob))
    else:
        m, _ = mutate(rng, blob)
        if rng.random() < 0.2:
            m, _ = mutate(rng, m)
        ops.append("restore " + hx(m))
    r = rng.random()
    if r < 0.15:
        ops.append("restore " + hx(blob))     # second restore on the same object
    if r < 0.8:
        if rng.random() < 0.7:
            ops.append("up")
        ops += queue_ops(rng, rng.randrange(1, 15))
    return ops


def generate(rng, tier, override=0):
    n = override or (4000 if tier == "quick" else 80000)
    cases = [gen_case(rng) for _ in range(n)]
    # every truncation and every single-byte extension of a few blobs
    for _ in range(3 if tier == "quick" else 40):
        blob = rblob(rng)
        for ln in range(len(blob) + 1):
            cases.append(["fresh", "restore " + hx(blob[:ln]), "len", "dropy"])
        cases.append(["fresh", "restore " + hx(blob + b"\0"), "len"])
    return cases


PAT = re.compile(r"^= (.*?) \| wire (\S+) \| q (-?\d+) (-?\d+) (\S+)(?: sm (\d+) (\d) (\S+))? \| smst (\S+)(?: h=(\d+) id=(\S+))? \| st (\w) ev (\S+)$")


def py_oracle(ops, outs):
    fails = []
    prev = None
    for i, (op, out) in enumerate(zip(ops, outs)):
        m = PAT.match(out)
        if not m:
            if not out.startswith("= bad-op"):
                fails.append((i, "unparsable-output %s" % out[:80]))
            prev = None
            continue
        res, w, qlen, ulen, q, sent, rs, smq, smst, handled, sid, st, ev = m.groups()
        t = op.split(" ")
        elems = c06.parse_elems(q)
        if t[0] == "restore" and prev is not None and prev["smst"] == "none" and prev["st"] == "d":
            want = py_parse(unhx(t[1]))
            if want is None:
                # must be refused and leave the object exactly as it was
                if res == "rc 0":
                    fails.append((i, "accepted-invalid-blob"))
                elif smst != "none" or elems or qlen != "0" or ulen != "0":
                    fails.append((i, "reject-left-state-behind"))
            else:
                if res != "rc 0":
                    fails.append((i, "refused-valid-blob"))
                else:
                    got_q = [unhx(e[4]) for e in elems]
                    got_sm = [] if smq in (None, "-") else [(int(x.split(":")[0]), unhx(x.split(":")[1])) for x in smq.split(",")]
                    if (int(sent), int(handled), unhx(sid), got_q, got_sm) != want:
                        fails.append((i, "restored-state-differs"))
                    if any(e[0] != "u" or e[1] != "0" or e[2] != "0" for e in elems):
                        fails.append((i, "restored-element-not-pristine"))
                    # a native retained element is owned by the user: only then does it count, and can
                    # it be dropped, once it is handed back to the send queue
                    if smq not in (None, "-") and any(x.split(":")[2:3] not in ([], ["u"]) for x in smq.split(",")):
                        fails.append((i, "restored-retained-element-not-user-owned"))
        if res.startswith("blob ") and res != "blob null" and smst != "none":
            b = unhx(res[5:])
            want = py_parse(b)
            got_q = [unhx(e[4]) for e in elems]
            got_sm = [] if smq in (None, "-") else [(int(x.split(":")[0]), unhx(x.split(":")[1])) for x in smq.split(",")]
            if want is None or want != (int(sent), int(handled), unhx(sid), got_q, got_sm):
                fails.append((i, "blob-does-not-describe-state"))
        if int(qlen) != len(elems) or int(ulen) != sum(1 for e in elems if e[0] in "u?") and smst != "none":
            fails.append((i, "counter-mismatch"))
        prev = {"smst": smst, "st": st}
    # restored queues behave like native ones: reuse the C06 step oracle on the ops after restore
    return fails


def signature(case, i, what):
    w = what.split(" ")
    return "%s:%s" % (ID, w[1] if w[0] == "ORACLE-FAIL" and len(w) > 1 else w[0])


def tags(case, outs):
    res = []
    for op, out in zip(case.ops, outs):
        t = op.split(" ")
        m = PAT.match(out)
        r = m.group(1).split(" ")[0] + (m.group(1).split(" ")[1] if m and t[0] == "restore" else "") if m else "bad"
        cls = ""
        if t[0] == "restore":
            b = unhx(t[1])
            cls = ":valid" if py_parse(b) is not None else ":invalid:%s" % ("short" if len(b) < 30 else "long")
        res.append("%s%s:%s:%s" % (t[0], cls, r, m.group(9) if m else "?"))
    return res
