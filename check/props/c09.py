"""C09 — stanza serialisation is faithful and cannot be broken out of.  Engine `stz` (stateful).

Generator: random API-call programs (protocol: harness/eng_stz.c) that build stanza trees bottom-up,
top-down and by mutation through paths, then render / dump / re-read them.

Model-free oracle (`py_oracle`): a tree-level Python reference of what the PUBLIC API is documented
to do (set replaces, delete removes, add_child appends, copy is deep, reply swaps the addresses, …)
— no hash table, no renderer, no Lean.  Every `dump` must equal the reference tree exactly; every
rendering is parsed with xml.etree.ElementTree (namespace aware, inside a wrapper that declares the
ambient default namespace) and its canonical tree (names, EFFECTIVE namespaces, attribute sets, child
order, merged text) must equal the canonical tree of the reference; reported length must equal the
length computed from the reference; `xrender` (raw expat on the C side) must print the canonical
tree of the reference; `reparse` (the library's own xmpp_stanza_new_from_string on its own output)
followed by `dump` must give the reference tree in "explicit namespace" form.

Canonical tree / effective namespace (Appendix E): the namespace of an element is the value of the
nearest `xmlns` attribute on itself or an ancestor (`xmlns=""` = no namespace), else the ambient
default namespace of the place where the bytes are read (jabber:client for a stanza on a stream; the
parent's effective namespace when a non-root node is rendered).  `xmlns` is not an attribute of the
canonical tree.  Adjacent text nodes are merged, empty text nodes dropped.
"""
import re
import xml.etree.ElementTree as ET

from .common import hx, unhx, load_corpus

ID = "C09"
ENGINE = "stz"
VARIANT = "std"
STATEFUL = True
LEVEL = "proof"
FILES = ["stanza.c", "hash.c", "parser_expat.c"]
TRUSTED = ["models Strophe/Model/HashTab.lean + Strophe/Model/Stanza.lean tied to src/hash.c, src/stanza.c and "
           "src/parser_expat.c by differential execution (engine stz): byte-identical renderings, hash iteration "
           "order, return codes, accessor dumps",
           "Spec/Xml.lean (independent XML fragment parser with namespace scoping) cross-checked on every run "
           "against raw expat (harness op xrender) and Python's xml.etree.ElementTree"]
ASSUMPTIONS = ["allocation failure paths are not modelled",
               "xmpp_stanza_new_from_string is modelled with expat replaced by the reader of Spec/Xml.lean, i.e. on the "
               "fragment grammar the serialiser can emit (ops `parse`/`reparse` are only given such input); expat itself "
               "runs for real on the C side and, as an independent reader (raw, not through parser_expat.c), in `xrender`",
               "known finding F2 (xmlns=\"\" below a namespaced ancestor is not kept by parser_expat.c) is generated in a "
               "separate marked stream only and reported by signature C09:reparse:reread-undeclared-ns",
               "a stanza is attached to at most one parent and never below itself (op `child` hands the child "
               "over); rendering a child after its parent was released (D6) belongs to C12 and is not generated",
               "names are NCNames (no prefixes) except the library's own `stream:error`",
               "rendered sizes stay below 2^31 (C `int` accounting of the renderer is modelled with naturals)"]
RULE = ("random API programs: trees of depth <= 8 and fan-out <= 6 built bottom-up / top-down / by path mutation, "
        "NCName names incl. multi-byte, text and values over all XML-legal code points incl. < > & \" ' and 2-4 byte "
        "UTF-8, xmlns attributes equal to / different from the parent's and jabber:client, sizes forced to every "
        "value 1016..1032 and up to 64 KiB, hash-table stress (overwrite/delete/re-add, colliding keys), copies "
        "mutated after copying, reply/reply_error/error_new, re-reading with three parsers, hostile bytes and API "
        "misuse; distinct = tag (op kind, result kind, size class, content classes)")

JC = b"jabber:client"
NS_STANZAS = b"urn:ietf:params:xml:ns:xmpp-stanzas"
NS_STREAMS = b"urn:ietf:params:xml:ns:xmpp-streams"
NS_ETHERX = b"http://etherx.jabber.org/streams"
XMLNS = b"xmlns"

# RFC 6120 section 4.9.3 — stream error conditions; section 8.3.3 — stanza error conditions
RFC6120_STREAM_CONDITIONS = [
    "bad-format", "bad-namespace-prefix", "conflict", "connection-timeout", "host-gone", "host-unknown",
    "improper-addressing", "internal-server-error", "invalid-from", "invalid-namespace", "invalid-xml",
    "not-authorized", "not-well-formed", "policy-violation", "remote-connection-failed", "reset",
    "resource-constraint", "restricted-xml", "see-other-host", "system-shutdown", "undefined-condition",
    "unsupported-encoding", "unsupported-feature", "unsupported-stanza-type", "unsupported-version"]
RFC6120_STANZA_CONDITIONS = [
    "bad-request", "conflict", "feature-not-implemented", "forbidden", "gone", "internal-server-error",
    "item-not-found", "jid-malformed", "not-acceptable", "not-allowed", "not-authorized", "policy-violation",
    "recipient-unavailable", "redirect", "registration-required", "remote-server-not-found",
    "remote-server-timeout", "resource-constraint", "service-unavailable", "subscription-required",
    "undefined-condition", "unexpected-request"]
# strophe.h xmpp_error_type_t, in enum order, with the names xmpp_error_new gives them (documented API
# behaviour; the RFC 3920 names `invalid-id` / `xml-not-well-formed` are what the library defines)
SE_NAMES = ["bad-format", "bad-namespace-prefix", "conflict", "connection-timeout", "host-gone", "host-unknown",
            "improper-addressing", "internal-server-error", "invalid-from", "invalid-id", "invalid-namespace",
            "invalid-xml", "not-authorized", "policy-violation", "remote-connection-failed",
            "resource-constraint", "restricted-xml", "see-other-host", "system-shutdown", "undefined-condition",
            "unsupported-encoding", "unsupported-stanza-type", "unsupported-version", "xml-not-well-formed"]


def corpus():
    return load_corpus(ID)


# =============================================================================================
# reference tree

class Node:
    __slots__ = ("kind", "data", "attrs", "kids")

    def __init__(self, kind="unk", data=None, attrs=None, kids=None):
        self.kind = kind          # 'tag' | 'text' | 'unk'
        self.data = data          # bytes | None
        self.attrs = attrs        # dict | None  (None = no table yet)
        self.kids = kids if kids is not None else []

    def copy(self):
        return Node(self.kind, self.data, None if self.attrs is None else dict(self.attrs),
                    [k.copy() for k in self.kids])


def cstr(b):
    i = b.find(b"\0")
    return b if i < 0 else b[:i]


def esc_len(b):
    return len(b) + 3 * b.count(b"<") + 3 * b.count(b">") + 4 * b.count(b"&") + 5 * b.count(b'"')


def own_ns(n):
    if n.kind == "tag" and n.attrs is not None:
        return n.attrs.get(XMLNS)
    return None


def elided(n, parent):
    """is the xmlns attribute of tag `n` left out when it is rendered below `parent` (None = root)?"""
    v = own_ns(n)
    if v is None:
        return False
    if parent is not None:
        pv = parent.attrs.get(XMLNS) if parent.attrs is not None else None
        return pv is not None and pv == v
    return v == JC


def renderable(n):
    if n.kind == "unk" or n.data is None:
        return False
    if n.kind == "text":
        return True
    return all(renderable(k) for k in n.kids)


def rlen(n, parent):
    """length of the rendering, computed from the tree alone (independent of attribute order)"""
    if n.kind == "text":
        return esc_len(n.data)
    total = 1 + len(n.data)
    for k, v in (n.attrs or {}).items():
        if k == XMLNS and elided(n, parent):
            continue
        total += 1 + len(k) + 2 + esc_len(v) + 1
    if not n.kids:
        return total + 2
    total += 1
    for c in n.kids:
        total += rlen(c, n)
    return total + 3 + len(n.data)


def count_tags(n, parent):
    """(number of '<', number of '\"', number of '>') the rendering must contain"""
    if n.kind == "text":
        return (0, 0, 0)
    nattr = sum(1 for k in (n.attrs or {}) if not (k == XMLNS and elided(n, parent)))
    if not n.kids:
        return (1, 2 * nattr, 1)
    lt, qt, gt = 2, 2 * nattr, 2
    for c in n.kids:
        a, b, c2 = count_tags(c, n)
        lt, qt, gt = lt + a, qt + b, gt + c2
    return (lt, qt, gt)


def dump_str(n):
    if n.kind == "text":
        s = "'" + hx(n.data) + "'"
        if n.kids:
            s += "[" + ",".join(dump_str(k) for k in n.kids) + "]"
        return s
    if n.kind == "tag":
        a = ",".join("%s=%s" % (hx(k), hx(v)) for k, v in sorted((n.attrs or {}).items()))
        return "(" + hx(n.data) + "{" + a + "}[" + ",".join(dump_str(k) for k in n.kids) + "])"
    s = "?"
    if n.kids:
        s += "[" + ",".join(dump_str(k) for k in n.kids) + "]"
    return s


# ---- canonical tree: ('e', ns|None, name, ((k,v),…sorted), [kids]) | ('t', bytes)

def merge_text(kids):
    out = []
    for k in kids:
        if k[0] == "t":
            if not k[1]:
                continue
            if out and out[-1][0] == "t":
                out[-1] = ("t", out[-1][1] + k[1])
                continue
        out.append(k)
    return out


def canon(n, inherited):
    """canonical tree of reference node `n` read where the default namespace in scope is `inherited`"""
    if n.kind == "text":
        return ("t", n.data)
    v = own_ns(n)
    ns = inherited if v is None else (v if v else None)
    name = n.data
    ens = ns
    if b":" in name:   # only the library's own stream:error gets here
        pfx, name = name.split(b":", 1)
        ens = NS_ETHERX if pfx == b"stream" else b"?unbound"
    attrs = tuple(sorted((k, v2) for k, v2 in (n.attrs or {}).items() if k != XMLNS))
    kids = merge_text([canon(k, ns) for k in n.kids if k.kind != "unk"])
    return ("e", ens, name, attrs, kids)


def canon_r(n, parent, scope):
    """canonical tree of the RENDERING of `n` below `parent` read where the default namespace in scope is
    `scope`: an xmlns that the renderer leaves out (equal to the parent's, or jabber:client on a root) is not
    a declaration.  Equals canon(n, scope) whenever `scope` is the proper ambient namespace (jabber:client
    for a root, the parent's effective namespace otherwise)."""
    if n.kind == "text":
        return ("t", n.data)
    v = own_ns(n)
    if v is not None and not elided(n, parent):
        scope = v if v else None
    name = n.data
    ens = scope
    if b":" in name:
        pfx, name = name.split(b":", 1)
        ens = NS_ETHERX if pfx == b"stream" else b"?unbound"
    attrs = tuple(sorted((k, v2) for k, v2 in (n.attrs or {}).items() if k != XMLNS))
    kids = merge_text([canon_r(k, n, scope) for k in n.kids if k.kind != "unk"])
    return ("e", ens, name, attrs, kids)


def canon_str(c):
    if c[0] == "t":
        return "'" + hx(c[1]) + "'"
    a = ",".join("%s=%s" % (hx(k), hx(v)) for k, v in c[3])
    return "(" + hx(c[1]) + "|" + hx(c[2]) + "{" + a + "}[" + ",".join(canon_str(k) for k in c[4]) + "])"


def et_canon(e):
    tag = e.tag
    if tag.startswith("{"):
        ns, name = tag[1:].split("}", 1)
        ns = ns.encode()
    else:
        ns, name = None, tag
    attrs = []
    for k, v in e.attrib.items():
        if k.startswith("{"):
            k = "?prefixed:" + k
        attrs.append((k.encode(), v.encode()))
    kids = []
    if e.text:
        kids.append(("t", e.text.encode()))
    for c in e:
        kids.append(et_canon(c))
        if c.tail:
            kids.append(("t", c.tail.encode()))
    return ("e", ns, name.encode(), tuple(sorted(attrs)), merge_text(kids))


def et_parse(doc, ambient):
    """independent reader: ElementTree over `doc` placed in a stream whose default namespace is `ambient`"""
    head = b"<stream:stream xmlns:stream='http://etherx.jabber.org/streams'"
    if ambient:
        amb = ambient.replace(b"&", b"&amp;").replace(b"<", b"&lt;").replace(b"'", b"&apos;")
        head += b" xmlns='" + amb + b"'"
    head += b">"
    try:
        root = ET.fromstring(head + doc + b"</stream:stream>")
    except ET.ParseError as e:
        return None, str(e)
    if len(root) != 1 or (root.text or "") != "" or (root[0].tail or "") != "":
        return None, "not exactly one element"
    return et_canon(root[0]), None


def canon_explicit(n):
    """canonical tree of a RE-READ stanza under the library's own reading: an element's namespace is its own
    xmlns attribute, nothing is inherited (parser_expat.c puts an explicit xmlns on every namespaced element)"""
    if n.kind == "text":
        return ("t", n.data)
    v = own_ns(n)
    attrs = tuple(sorted((k, v2) for k, v2 in (n.attrs or {}).items() if k != XMLNS))
    kids = merge_text([canon_explicit(k) for k in n.kids if k.kind != "unk"])
    return ("e", v if v else None, n.data, attrs, kids)


def parse_dump(s):
    """inverse of the `dump` format of the engine (harness/eng_stz.c)"""
    pos = [0]

    def hexv():
        m = re.compile(r"[0-9a-f]+|\.|-").match(s, pos[0])
        pos[0] = m.end()
        return unhx(m.group(0))

    def kids():
        out = []
        assert s[pos[0]] == "["
        pos[0] += 1
        while s[pos[0]] != "]":
            out.append(node())
            if s[pos[0]] == ",":
                pos[0] += 1
        pos[0] += 1
        return out

    def node():
        c = s[pos[0]]
        if c == "'":
            pos[0] += 1
            d = hexv()
            pos[0] += 1
            n = Node("text", d)
        elif c == "?":
            pos[0] += 1
            n = Node("unk")
        else:
            assert c == "("
            pos[0] += 1
            name = hexv()
            assert s[pos[0]] == "{"
            pos[0] += 1
            attrs = {}
            while s[pos[0]] != "}":
                k = hexv()
                pos[0] += 1
                attrs[k] = hexv()
                if s[pos[0]] == ",":
                    pos[0] += 1
            pos[0] += 1
            n = Node("tag", name, attrs or None, kids())
            assert s[pos[0]] == ")"
            pos[0] += 1
            return n
        if pos[0] < len(s) and s[pos[0]] == "[":
            n.kids = kids()
        return n
    return node()


# ---- what the library's own parser makes of a rendering (explicit xmlns on every namespaced element)

def reparsed(n, parent, scope):
    """reference for xmpp_stanza_new_from_string(render(n)): `scope` = default namespace in scope
    in the RENDERED text (None at the top: the library wraps the string in a bare <stream>)"""
    if n.kind == "text":
        return Node("text", n.data)
    v = own_ns(n)
    if v is not None and not elided(n, parent):
        scope = v if v else None
    attrs = {k: v2 for k, v2 in (n.attrs or {}).items() if k != XMLNS}
    if scope is not None:
        attrs[XMLNS] = scope
    kids = []
    for k in n.kids:
        r = reparsed(k, n, scope)
        if r.kind == "text":
            if not r.data:
                continue
            if kids and kids[-1].kind == "text":
                kids[-1] = Node("text", kids[-1].data + r.data)
                continue
        kids.append(r)
    return Node("tag", n.data, attrs or None, kids)


# ---- well-formedness classes of the reference tree (what the property quantifies over)

_NS_RANGES = (r"A-Za-z_\u00C0-\u00D6\u00D8-\u00F6\u00F8-\u02FF\u0370-\u037D\u037F-\u1FFF\u200C-\u200D"
              r"\u2070-\u218F\u2C00-\u2FEF\u3001-\uD7FF\uF900-\uFDCF\uFDF0-\uFFFD\U00010000-\U000EFFFF")
_NAME_START = re.compile("[" + _NS_RANGES + "]")
_NAME_REST = re.compile("[" + _NS_RANGES + r"\-.0-9\u00B7\u0300-\u036F\u203F-\u2040" + "]*")


def is_ncname(b):
    try:
        s = b.decode("utf-8")
    except UnicodeDecodeError:
        return False
    return bool(s) and bool(_NAME_START.fullmatch(s[0])) and bool(_NAME_REST.fullmatch(s[1:]))


def legal_chars(b, forbid):
    try:
        s = b.decode("utf-8")
    except UnicodeDecodeError:
        return False
    for ch in s:
        o = ord(ch)
        if o in forbid:
            return False
        if not (o in (9, 10, 13) or 0x20 <= o <= 0xD7FF or 0xE000 <= o <= 0xFFFD or 0x10000 <= o <= 0x10FFFF):
            return False
    return True


def wf(n, allow_stream_error=False):
    """is the reference tree inside the property's quantifier?"""
    if n.kind == "text":
        return legal_chars(n.data, (13,))
    if n.kind != "tag":
        return False
    if not is_ncname(n.data) and not (allow_stream_error and n.data == b"stream:error"):
        return False
    for k, v in (n.attrs or {}).items():
        if not is_ncname(k) or not legal_chars(v, (9, 10, 13)):
            return False
    return all(wf(k) for k in n.kids)


# =============================================================================================
# reference interpreter of the op language

UNKNOWN = object()   # reference value of a variable the reference cannot predict


class Sim:
    def __init__(self):
        self.vars = {}
        self.reread = {}     # variable -> (index of the reparse op, canonical tree of what was rendered)

    @staticmethod
    def varno(tok, plain=False):
        m = re.fullmatch(r"v(\d+)((?:/\d+)*)", tok)
        if not m or int(m.group(1)) >= 64 or (plain and m.group(2)):
            return None
        return int(m.group(1)), [int(x) for x in m.group(2).split("/")[1:]]

    def resolve(self, tok):
        """-> (err, node, parent, rootvar)"""
        r = self.varno(tok)
        if r is None:
            return "bad-op", None, None, None
        v, path = r
        n = self.vars.get(v)
        if n is None:
            return "novar", None, None, v
        if n is UNKNOWN:
            return None, UNKNOWN, None, v
        parent = None
        for i in path:
            if i >= len(n.kids):
                return "path", None, None, v
            parent, n = n, n.kids[i]
        return None, n, parent, v


def hexok(tok, allow_null=False):
    if tok == "-":
        return allow_null
    if tok == ".":
        return True
    return bool(re.fullmatch(r"(?:[0-9a-fA-F]{2})+", tok))


def set_attr(n, k, v):
    if n.kind != "tag":
        return -2
    if n.attrs is None:
        n.attrs = {}
    n.attrs[k] = v
    return 0


def del_attr(n, k):
    if n.kind != "tag" or n.attrs is None or k not in n.attrs:
        return -1
    del n.attrs[k]
    return 0


def do_reply(n):
    if n.kind != "tag" or n.attrs is None or b"from" not in n.attrs:
        return None
    r = Node(n.kind, n.data, dict(n.attrs), [])
    frm = n.attrs[b"from"]
    for k in (b"to", b"from", XMLNS):
        r.attrs.pop(k, None)
    r.attrs[b"to"] = frm
    return r


def do_reply_error(n, etype, cond, text):
    if etype is None or cond is None:
        return None
    r = do_reply(n)
    if r is None:
        return None
    r.attrs[b"type"] = b"error"
    if n.attrs.get(b"to") is not None:
        r.attrs[b"from"] = n.attrs[b"to"]
    err = Node("tag", b"error", {b"type": etype}, [])
    r.kids.append(err)
    err.kids.append(Node("tag", cond, {XMLNS: NS_STANZAS}, []))
    if text is not None:
        err.kids.append(Node("tag", b"text", {XMLNS: NS_STANZAS}, [Node("text", text)]))
    return r


def do_error_new(ty, text):
    name = SE_NAMES[ty] if 0 <= ty < len(SE_NAMES) else "internal-server-error"
    e = Node("tag", b"stream:error", None, [Node("tag", name.encode(), {XMLNS: NS_STREAMS}, [])])
    if text is not None:
        e.kids.append(Node("tag", b"text", {XMLNS: NS_STREAMS}, [Node("text", text)]))
    return e


def simulate(ops, outs):
    """Run the reference next to the implementation outputs; yields (i, message) for every op whose
    output violates the property.  `outs[i]` is the '=' line of op i (may be shorter than ops)."""
    sim = Sim()
    fails = []

    def bad(i, msg):
        fails.append((i, msg))

    for i, op in enumerate(ops):
        if i >= len(outs):
            break
        out = outs[i]
        t = op.split(" ")
        k = t[0]
        want = None        # exact expected line, when the reference determines it
        if k not in ("dump", "render", "xrender", "attrs", "getattr") and sim.reread:
            for tok in t[1:]:
                r = Sim.varno(tok)
                if r is not None:
                    sim.reread.pop(r[0], None)
            if k == "end":
                sim.reread.clear()
        try:
            if k == "end" and len(t) == 1:
                sim.vars.clear()
                want = "= end"
            elif k == "new" and len(t) == 2:
                r = sim.varno(t[1], plain=True)
                if r is None:
                    want = "= err bad-op"
                elif r[0] in sim.vars:
                    want = "= err busy"
                else:
                    sim.vars[r[0]] = Node()
                    want = "= ok"
            elif k in ("name", "text", "textz", "ns", "delattr", "getattr") and len(t) == 3:
                if not hexok(t[2]) or sim.varno(t[1]) is None:
                    want = "= err bad-op"
                else:
                    e, n, par, _ = sim.resolve(t[1])
                    if e:
                        want = "= err " + e
                    elif n is UNKNOWN:
                        want = None
                    else:
                        b = unhx(t[2])
                        if k == "name":
                            if n.kind == "text":
                                want = "= rc -2"
                            else:
                                n.kind, n.data = "tag", cstr(b)
                                want = "= rc 0"
                        elif k in ("text", "textz"):
                            if n.kind == "tag":
                                want = "= rc -2"
                            else:
                                n.kind, n.data = "text", cstr(b)
                                want = "= rc 0"
                        elif k == "ns":
                            want = "= rc %d" % set_attr(n, XMLNS, cstr(b))
                        elif k == "delattr":
                            want = "= rc %d" % del_attr(n, cstr(b))
                        else:
                            v = n.attrs.get(cstr(b)) if (n.kind == "tag" and n.attrs is not None) else None
                            want = "= val " + hx(v)
            elif k == "attr" and len(t) == 4:
                if not hexok(t[2]) or not hexok(t[3]) or sim.varno(t[1]) is None:
                    want = "= err bad-op"
                else:
                    e, n, par, _ = sim.resolve(t[1])
                    if e:
                        want = "= err " + e
                    elif n is not UNKNOWN:
                        want = "= rc %d" % set_attr(n, cstr(unhx(t[2])), cstr(unhx(t[3])))
            elif k == "attrs" and len(t) == 2:
                e, n, par, _ = sim.resolve(t[1])
                if e:
                    want = "= err " + e
                elif n is not UNKNOWN:
                    d = (n.attrs or {}) if n.kind == "tag" else {}
                    m = re.fullmatch(r"= attrs (\d+) (\S+)", out)
                    if not m or int(m.group(1)) != len(d):
                        bad(i, "attrs-count got %s want %d" % (out[:80], len(d)))
                    else:
                        got = {} if m.group(2) == "-" else dict(p.split("=") for p in m.group(2).split(","))
                        if got != {hx(a): hx(b) for a, b in d.items()}:
                            bad(i, "attrs-set differs from the reference")
                        if m.group(2) != "-" and len(m.group(2).split(",")) != len(d):
                            bad(i, "attrs-duplicate key in iteration")
            elif k == "child" and len(t) == 3:
                c = sim.varno(t[2], plain=True)
                if c is None or sim.varno(t[1]) is None:
                    want = "= err bad-op"
                else:
                    e, n, par, root = sim.resolve(t[1])
                    if e:
                        want = "= err " + e
                    elif c[0] not in sim.vars:
                        want = "= err novar"
                    elif c[0] == root:
                        want = "= err cycle"
                    else:
                        ch = sim.vars.pop(c[0])
                        if n is UNKNOWN or ch is UNKNOWN:
                            sim.vars[root] = UNKNOWN
                        else:
                            n.kids.append(ch)
                        want = "= rc 0"
            elif k in ("copy", "reply") and len(t) == 3 or k == "replyerr" and len(t) == 6:
                w = sim.varno(t[2], plain=True)
                if w is None or sim.varno(t[1]) is None or (k == "replyerr" and not all(hexok(x, True) for x in t[3:6])):
                    want = "= err bad-op"
                else:
                    e, n, par, _ = sim.resolve(t[1])
                    if e:
                        want = "= err " + e
                    elif w[0] in sim.vars:
                        want = "= err busy"
                    elif n is UNKNOWN:
                        if out == "= ok":
                            sim.vars[w[0]] = UNKNOWN
                    else:
                        if k == "copy":
                            r = n.copy()
                        elif k == "reply":
                            r = do_reply(n)
                        else:
                            a = [None if x == "-" else cstr(unhx(x)) for x in t[3:6]]
                            r = do_reply_error(n, a[0], a[1], a[2])
                        if r is None:
                            want = "= null"
                        else:
                            sim.vars[w[0]] = r
                            want = "= ok"
            elif k == "errnew" and len(t) == 4:
                w = sim.varno(t[3], plain=True)
                if w is None or not re.fullmatch(r"-?\d{1,4}", t[1]) or abs(int(t[1])) > 1000 or not hexok(t[2], True):
                    want = "= err bad-op"
                elif w[0] in sim.vars:
                    want = "= err busy"
                else:
                    sim.vars[w[0]] = do_error_new(int(t[1]), None if t[2] == "-" else cstr(unhx(t[2])))
                    want = "= ok"
            elif k == "rel" and len(t) == 2:
                v = sim.varno(t[1], plain=True)
                if v is None:
                    want = "= err bad-op"
                elif v[0] not in sim.vars:
                    want = "= err novar"
                else:
                    del sim.vars[v[0]]
                    want = "= freed 1"
            elif k == "dump" and len(t) == 2:
                e, n, par, rootv = sim.resolve(t[1])
                if e:
                    want = "= err " + e
                elif n is not UNKNOWN:
                    want = "= tree " + dump_str(n)
                if not e and "/" not in t[1] and rootv in sim.reread and out.startswith("= tree "):
                    # the stanza the library re-read from its own output, as the ACCESSORS show it, must be the
                    # tree that was rendered.  Read with the renderer's own convention (no xmlns attribute =
                    # inherit) and, to classify a difference, with parser_expat.c's (no xmlns attribute = none).
                    ri, orig = sim.reread.pop(rootv)
                    try:
                        got = parse_dump(out[len("= tree "):])
                    except (AssertionError, IndexError, AttributeError, ValueError):
                        got = None
                    if got is not None and canon(got, None) != orig:
                        if canon_explicit(got) == orig:
                            bad(ri, "reread-undeclared-ns re-read tree, rendered again, puts a namespace-less element "
                                    "into its ancestor's namespace: %s want %s"
                                % (canon_str(canon(got, None))[:120], canon_str(orig)[:120]))
                        else:
                            bad(ri, "reread-differs %s want %s" % (canon_str(canon(got, None))[:160], canon_str(orig)[:160]))
            elif k == "render" and len(t) == 2:
                e, n, par, _ = sim.resolve(t[1])
                if e:
                    want = "= err " + e
                elif n is not UNKNOWN:
                    check_render(i, out, n, par, sim, bad)
            elif k == "xrender" and len(t) == 4:
                e, n, par, _ = sim.resolve(t[2])
                if not hexok(t[1], True) or not re.fullmatch(r"-|\d{1,7}", t[3]):
                    want = "= err bad-op"
                elif e:
                    want = "= err " + e
                elif n is not UNKNOWN:
                    amb = unhx(t[1])
                    if not renderable(n):
                        want = "= err -2"
                    elif t[3] != "-" and int(t[3]) < rlen(n, par):
                        want = "= xml-error"
                    elif n.kind == "text" or has_illegal(n):
                        want = "= xml-error"
                    elif wf(n):
                        want = "= xml " + canon_str(canon_r(n, par, amb if amb else None))
            elif k == "reparse" and len(t) == 3:
                w = sim.varno(t[2], plain=True)
                e, n, par, _ = sim.resolve(t[1])
                if w is None or sim.varno(t[1]) is None:
                    want = "= err bad-op"
                elif e:
                    want = "= err " + e
                elif w[0] in sim.vars:
                    want = "= err busy"
                elif n is UNKNOWN:
                    if out == "= ok":
                        sim.vars[w[0]] = UNKNOWN
                elif not renderable(n):
                    want = "= err -2"
                elif n.kind == "tag" and wf(n):
                    sim.vars[w[0]] = reparsed(n, par, None)
                    sim.reread[w[0]] = (i, canon_r(n, par, None))
                    want = "= ok"
                elif n.kind == "text" or has_illegal(n):
                    want = "= null"
                elif out == "= ok":
                    sim.vars[w[0]] = UNKNOWN
            elif k == "parse" and len(t) == 3:
                w = sim.varno(t[2], plain=True)
                if w is None or not hexok(t[1]):
                    want = "= err bad-op"
                elif w[0] in sim.vars:
                    want = "= err busy"
                else:
                    r = lib_parse_reference(cstr(unhx(t[1])))
                    if r is None:
                        want = "= null"
                    else:
                        sim.vars[w[0]] = r
                        want = "= ok"
            elif k == "xcanon" and len(t) == 3:
                if not hexok(t[1], True) or not hexok(t[2]):
                    want = "= err bad-op"
                else:
                    c, err = et_parse(unhx(t[2]), unhx(t[1]))
                    want = "= xml-error" if c is None else "= xml " + canon_str(c)
            else:
                want = "= err bad-op"
        except Exception as ex:  # noqa: BLE001 — a bug in the reference must not hide behind a pass
            bad(i, "reference-exception %s: %r" % (k, ex))
            continue
        if want is not None and out != want:
            bad(i, "%s-mismatch got %s want %s" % (k, out[:120], want[:120]))
    return fails


def has_illegal(n):
    """does the tree contain text/attribute values outside the XML Char production (any parser must refuse)?"""
    if n.kind == "text":
        return not legal_chars(n.data, ())
    if n.kind != "tag":
        return False
    for k, v in (n.attrs or {}).items():
        if not legal_chars(v, ()):
            return True
    return any(has_illegal(k) for k in n.kids)


def check_render(i, out, n, par, sim, bad):
    if not renderable(n):
        if out != "= err -2":
            bad(i, "render-mismatch got %s want = err -2" % out[:80])
        return
    m = re.fullmatch(r"= (\S+) (\d+)", out)
    if not m:
        bad(i, "render-mismatch got %s want a rendering" % out[:80])
        return
    data = unhx(m.group(1))
    want_len = rlen(n, par)
    if int(m.group(2)) != len(data):
        bad(i, "length reported %s but %d bytes returned" % (m.group(2), len(data)))
    if len(data) != want_len:
        bad(i, "length %d differs from the reference length %d" % (len(data), want_len))
    lt, qt, gt = count_tags(n, par)
    if (data.count(b"<"), data.count(b'"'), data.count(b">")) != (lt, qt, gt):
        bad(i, "breakout markup-count <%d \"%d >%d, structure has <%d \"%d >%d"
            % (data.count(b"<"), data.count(b'"'), data.count(b">"), lt, qt, gt))
    if n.kind != "tag":
        return
    if wf(n, allow_stream_error=True):
        # ambient default namespace: the stream's for a root, the parent's effective one otherwise
        amb = JC
        if par is not None:
            amb = effective_ns_of(sim, par)
        got, err = et_parse(data, amb)
        want = canon(n, amb)
        if got is None:
            bad(i, "not-wellformed independent parser refuses the rendering: %s" % err)
        elif got != want:
            bad(i, "tree-differs independent parser reads %s want %s" % (canon_str(got)[:160], canon_str(want)[:160]))
    elif has_illegal(n):
        pass


def effective_ns_of(sim, node):
    """effective namespace of `node` (found by search from the roots) under ambient jabber:client"""
    def walk(n, inh):
        if n is node:
            v = own_ns(n)
            return True, (inh if v is None else (v or None))
        v = own_ns(n)
        ns = inh if v is None else (v or None)
        for k in n.kids:
            f, r = walk(k, ns)
            if f:
                return f, r
        return False, None
    for r in sim.vars.values():
        if r is UNKNOWN:
            continue
        f, res = walk(r, JC)
        if f:
            return res
    return JC


def lib_parse_reference(doc):
    """what xmpp_stanza_new_from_string documents: first element of the string, namespaces made explicit,
    attribute prefixes dropped; None if not well-formed (reference: ElementTree inside a bare <stream>)"""
    try:
        root = ET.fromstring(b"<stream>" + doc + b"</stream>")
    except ET.ParseError:
        return None
    if len(root) < 1:
        return None

    def conv(e):
        tag = e.tag
        ns = None
        if tag.startswith("{"):
            ns, tag = tag[1:].split("}", 1)
        attrs = {}
        for k, v in e.attrib.items():
            if k.startswith("{"):
                k = k.split("}", 1)[1]
            attrs[k.encode()] = v.encode()
        if ns is not None:
            attrs[XMLNS] = ns.encode()
        kids = []
        if e.text:
            kids.append(Node("text", e.text.encode()))
        for c in e:
            kids.append(conv(c))
            if c.tail:
                kids.append(Node("text", c.tail.encode()))
        return Node("tag", tag.encode(), attrs or None, kids)
    return conv(root[0])


def py_oracle(ops, outs):
    return simulate(ops, outs)


# =============================================================================================
# generator

ASCII_NAME_START = "abcdefghijklmnopqrstuvwxyzABCDEFGHIJKLMNOPQRSTUVWXYZ_"
ASCII_NAME_REST = ASCII_NAME_START + "0123456789-."
# name characters valid in both the 4th and the 5th edition of XML 1.0 (expat implements the 4th)
WIDE_NAME = "éÀøαωЖ中文あ가"
COMMON_NAMES = ["message", "iq", "presence", "body", "query", "x", "item", "error", "text", "a", "b", "thread",
                "subject", "html", "p", "span"]
COMMON_KEYS = ["to", "from", "id", "type", "lang", "node", "jid", "name", "ver", "hash", "a", "b", "c", "d", "e",
               "i", "q", "y", "aaaa1", "aaaa9", "bbbbq", "k0", "k1", "k2", "k3", "k4", "k5", "k6", "k7", "k8", "k9"]
NAMESPACES = [JC, b"jabber:server", b"jabber:iq:roster", b"urn:xmpp:ping", b"http://jabber.org/protocol/disco#info",
              NS_STANZAS, b"urn:x", b"x", b"a&b", b"q<\">'", "ürn:中".encode()]

EDGE_CPS = [0x20, 0x7E, 0x7F, 0x80, 0x85, 0x9F, 0xA0, 0x7FF, 0x800, 0xFFF, 0x2028, 0xD7FF, 0xE000, 0xFFFD, 0x10000,
            0x1F600, 0xEFFFF, 0x10FFFF]
SPECIALS = "<>&\"'"
NASTY = ["]]>", "&amp;", "&lt;", "&#60;", "&#x3c;", "<!--", "-->", "<![CDATA[", "<?x?>", "</a>", "/>", "'/><b a='",
         "\"/><b a=\"", "\" x=\"", "&quot;", "&apos;", "&", "&&", "<<", ">>", "\"\"", "''", "=", " ", "\\", "%s", "%n"]


def rname(rng, pool, wide=0.15):
    r = rng.random()
    if r < 0.55:
        return rng.choice(pool).encode()
    n = rng.choice([1, 1, 2, 3, 4, 5, 8, 13])
    if rng.random() < wide:
        s = rng.choice(ASCII_NAME_START + WIDE_NAME)
        s += "".join(rng.choice(ASCII_NAME_REST + WIDE_NAME + "·") for _ in range(n - 1))
    else:
        s = rng.choice(ASCII_NAME_START) + "".join(rng.choice(ASCII_NAME_REST) for _ in range(n - 1))
    if s.lower().startswith("xml"):
        s = "_" + s
    return s.encode()


def rchar(rng, attr):
    r = rng.random()
    if r < 0.45:
        return chr(rng.randrange(0x20, 0x7F))
    if r < 0.62:
        return rng.choice(SPECIALS)
    if r < 0.66 and not attr:
        return rng.choice("\t\n")
    if r < 0.76:
        return chr(rng.randrange(0x80, 0x800))
    if r < 0.86:
        while True:
            c = rng.randrange(0x800, 0xFFFE)
            if not 0xD800 <= c <= 0xDFFF:
                return chr(c)
    if r < 0.93:
        return chr(rng.randrange(0x10000, 0x110000))
    return chr(rng.choice(EDGE_CPS))


def rtext(rng, attr=False, maxlen=40):
    r = rng.random()
    if r < 0.04:
        return b""
    n = rng.choice([1, 1, 2, 3, 5, 8, 13, maxlen])
    if r < 0.25:
        s = "".join(rng.choice(NASTY) for _ in range(rng.choice([1, 2, 3])))
    elif r < 0.40:
        s = "".join(rng.choice("abc xyz,.0189") for _ in range(n))
    else:
        s = "".join(rchar(rng, attr) for _ in range(n))
        if rng.random() < 0.3:
            s += rng.choice(NASTY)
    if attr:
        s = s.replace("\t", " ").replace("\n", " ").replace("\r", " ")
    return s.encode("utf-8")


def rns(rng, allow_empty=True):
    if rng.random() < 0.8:
        return rng.choice(NAMESPACES)
    if allow_empty and rng.random() < 0.1:
        return b""
    v = rtext(rng, attr=True, maxlen=12)
    return v.replace(b"{", b"(").replace(b"}", b")") or b"n"


class Spec:
    """a tree the generator wants to build"""
    __slots__ = ("kind", "name", "attrs", "kids", "text")

    def __init__(self, kind, name=None, attrs=None, kids=None, text=None):
        self.kind, self.name, self.attrs, self.kids, self.text = kind, name, attrs or [], kids or [], text


def gen_spec(rng, depth, fan, parent_ns=None, top=True):
    name = rname(rng, COMMON_NAMES)
    attrs = []
    seen = set()
    for _ in range(rng.choice([0, 0, 1, 1, 2, 3, 4, 6, 9, 14]) if rng.random() < 0.7 else 0):
        k = rname(rng, COMMON_KEYS, wide=0.1)
        if k == XMLNS or k in seen:
            continue
        seen.add(k)
        attrs.append((k, rtext(rng, attr=True)))
    ns = None
    r = rng.random()
    if top:
        if r < 0.35:
            ns = JC
        elif r < 0.6:
            ns = rns(rng)
    else:
        if r < 0.15 and parent_ns is not None:
            ns = parent_ns            # equal to the parent's: elided
        elif r < 0.3:
            # `xmlns=""` below an element is generated by case_undeclared only (known finding F2)
            ns = rns(rng, allow_empty=False)
        elif r < 0.34:
            ns = JC
    if ns is not None:
        attrs.insert(rng.randrange(len(attrs) + 1), (XMLNS, ns))
    kids = []
    if depth > 0:
        for _ in range(rng.randrange(0, fan + 1)):
            if rng.random() < 0.45:
                kids.append(Spec("text", text=rtext(rng)))
            else:
                kids.append(gen_spec(rng, depth - 1 if rng.random() < 0.8 else 0, fan,
                                     ns if ns is not None else None, top=False))
    return Spec("tag", name, attrs, kids)


def spec_to_node(s):
    if s.kind == "text":
        return Node("text", s.text)
    return Node("tag", s.name, dict(s.attrs) if s.attrs else None, [spec_to_node(k) for k in s.kids])


class Prog:
    def __init__(self, rng):
        self.rng = rng
        self.ops = []
        self.free = list(range(64))
        rng.shuffle(self.free)

    def var(self):
        return self.free.pop()

    def give(self, v):
        self.free.insert(0, v)

    def emit(self, *a):
        self.ops.append(" ".join(str(x) for x in a))

    # -- building ------------------------------------------------------------------------------
    def set_attrs(self, target, attrs, noise=True):
        rng = self.rng
        for k, v in attrs:
            if noise and rng.random() < 0.12:
                self.emit("attr", target, hx(k), hx(rtext(rng, attr=True)))       # overwritten below
            if noise and rng.random() < 0.06:
                k2 = rname(rng, COMMON_KEYS)
                if k2 not in dict(attrs):
                    self.emit("attr", target, hx(k2), hx(rtext(rng, attr=True)))
                    self.emit("delattr", target, hx(k2))
            if k == XMLNS and rng.random() < 0.6:
                self.emit("ns", target, hx(v))
            else:
                self.emit("attr", target, hx(k), hx(v))

    def build(self, s, style=None):
        """emit ops building spec `s`; returns the variable holding it"""
        rng = self.rng
        style = style or rng.choice(["bottomup", "topdown", "mixed"])
        v = self.var()
        self.emit("new", "v%d" % v)
        if s.kind == "text":
            if rng.random() < 0.1:
                self.emit("textz", "v%d" % v, hx(rtext(rng)))
            self.emit(rng.choice(["text", "textz"]), "v%d" % v, hx(s.text))
            return v
        if rng.random() < 0.08:
            self.emit("name", "v%d" % v, hx(rname(rng, COMMON_NAMES)))   # renamed below
        self.emit("name", "v%d" % v, hx(s.name))
        self.build_into("v%d" % v, s, style)
        return v

    def build_into(self, target, s, style):
        rng = self.rng
        st = style if style != "mixed" else rng.choice(["bottomup", "topdown"])
        if st == "bottomup":
            early = rng.random() < 0.5
            if early:
                self.set_attrs(target, s.attrs)
            for k in s.kids:
                c = self.build(k, style)
                self.emit("child", target, "v%d" % c)
                self.give(c)
            if not early:
                self.set_attrs(target, s.attrs)
        else:
            # attach bare children first, fill them in through paths afterwards
            late = []
            for i, k in enumerate(s.kids):
                c = self.var()
                self.emit("new", "v%d" % c)
                if k.kind == "text":
                    self.emit("text", "v%d" % c, hx(k.text))
                elif rng.random() < 0.5:
                    self.emit("name", "v%d" % c, hx(k.name))
                else:
                    late.append(i)     # unnamed when attached; named through the path
                self.emit("child", target, "v%d" % c)
                self.give(c)
            if rng.random() < 0.5:
                self.set_attrs(target, s.attrs)
                done = True
            else:
                done = False
            order = list(range(len(s.kids)))
            rng.shuffle(order)
            for i in order:
                k = s.kids[i]
                if k.kind == "text":
                    continue
                p = "%s/%d" % (target, i)
                if i in late:
                    self.emit("name", p, hx(k.name))
                self.build_into(p, k, style)
            if not done:
                self.set_attrs(target, s.attrs)

    # -- observing -----------------------------------------------------------------------------
    def observe(self, target, full=True):
        rng = self.rng
        self.emit("render", target)
        self.emit("dump", target)
        if full:
            self.emit("attrs", target)
            self.emit("xrender", hx(JC), target, "-")
            if rng.random() < 0.3:
                self.emit("xrender", "-", target, "-")

    def reread(self, target):
        w = self.var()
        self.emit("reparse", target, "v%d" % w)
        self.emit("dump", "v%d" % w)
        self.emit("render", "v%d" % w)
        if self.rng.random() < 0.4:
            w2 = self.var()
            self.emit("reparse", "v%d" % w, "v%d" % w2)     # idempotence of the round trip
            self.emit("dump", "v%d" % w2)
            self.emit("rel", "v%d" % w2)
            self.give(w2)
        self.emit("rel", "v%d" % w)
        self.give(w)


def all_paths(node, prefix):
    yield prefix, node
    for i, k in enumerate(node.kids):
        yield from all_paths(k, "%s/%d" % (prefix, i))


def case_tree(rng, tier):
    p = Prog(rng)
    depth = rng.choice([0, 1, 2, 2, 3, 3, 4, 5, 8])
    fan = rng.choice([1, 2, 3, 3, 4, 6])
    if depth >= 5:
        fan = min(fan, 3)
    s = gen_spec(rng, depth, fan)
    v = p.build(s)
    T = "v%d" % v
    p.observe(T)
    p.reread(T)
    node = spec_to_node(s)
    # copy, then mutate one side and look at the other
    w = p.var()
    W = "v%d" % w
    p.emit("copy", T, W)
    p.emit("dump", W)
    p.emit("render", W)
    p.emit("attrs", W)
    paths = [(q, n) for q, n in all_paths(node, "") if n.kind == "tag"]
    for _ in range(rng.choice([1, 2, 4])):
        side, other = (T, W) if rng.random() < 0.5 else (W, T)
        q, n = rng.choice(paths)
        m = rng.random()
        if m < 0.35:
            p.emit("attr", side + q, hx(rname(rng, COMMON_KEYS)), hx(rtext(rng, attr=True)))
        elif m < 0.5 and n.attrs:
            p.emit("delattr", side + q, hx(rng.choice(list(n.attrs.keys()))))
        elif m < 0.65:
            p.emit("name", side + q, hx(rname(rng, COMMON_NAMES)))
        elif m < 0.8:
            c = p.build(Spec("text", text=rtext(rng)))
            p.emit("child", side + q, "v%d" % c)
            p.give(c)
        else:
            c = p.build(gen_spec(rng, 1, 2, top=False))
            p.emit("child", side + q, "v%d" % c)
            p.give(c)
        p.emit("dump", other)
        p.emit("dump", side)
    p.emit("render", T)
    p.emit("render", W)
    # copy of a subtree, rendering of a subtree in the context of its parent
    if len(paths) > 1 and rng.random() < 0.7:
        q, n = rng.choice(paths[1:])
        x = p.var()
        p.emit("copy", T + q, "v%d" % x)
        p.observe("v%d" % x, full=False)
        p.emit("render", T + q)
        p.emit("xrender", "-", T + q, "-")
        p.emit("rel", "v%d" % x)
    if rng.random() < 0.5:
        p.emit("rel", T)
        p.emit("dump", W)
        p.emit("render", W)
    p.emit("end")
    return p.ops


def pad_to(rng, p, T, node, target):
    """add filler so that the rendering of `node` (root, variable T) has exactly `target` bytes
    (returns False if that is not possible with one more text node or attribute)"""
    need = target - rlen(node, None)
    if need <= 0:
        return need == 0
    tags = [(q, n) for q, n in all_paths(node, "") if n.kind == "tag"]
    rng.shuffle(tags)
    options = []
    for q, n in tags:
        if n.kids:
            options.append(("text", q, n, need))
        elif need >= len(n.data) + 2:
            options.append(("text", q, n, need - len(n.data) - 2))     # `/>` becomes `></name>`
        key = b"pad"
        while key in (n.attrs or {}):
            key += b"x"
        if need >= len(key) + 4:
            options.append(("attr", q, n, need - len(key) - 4, key))
    if not options:
        return False
    o = rng.choice(options[:4])
    if o[0] == "attr":
        val = filler(rng, o[3], attr=True)
        p.emit("attr", T + o[1], hx(o[4]), hx(val))
        set_attr(o[2], o[4], val)
    else:
        val = filler(rng, o[3], attr=False)
        c = p.var()
        p.emit("new", "v%d" % c)
        p.emit("text", "v%d" % c, hx(val))
        p.emit("child", T + o[1], "v%d" % c)
        p.give(c)
        o[2].kids.append(Node("text", val))
    return True


def filler(rng, n, attr):
    """bytes whose ESCAPED length is exactly n"""
    out = bytearray()
    left = n
    while left > 0:
        r = rng.random()
        if r < 0.08 and left >= 4:
            out += b"<" if rng.random() < 0.5 else b">"
            left -= 4
        elif r < 0.12 and left >= 5:
            out += b"&"
            left -= 5
        elif r < 0.16 and left >= 6:
            out += b'"'
            left -= 6
        elif r < 0.22 and left >= 2:
            out += chr(rng.randrange(0x80, 0x800)).encode()
            left -= 2
        elif r < 0.27 and left >= 3:
            out += "中".encode()
            left -= 3
        elif r < 0.30 and left >= 4:
            out += chr(rng.randrange(0x10000, 0x110000)).encode()
            left -= 4
        else:
            out += bytes([rng.choice(b"abcdefghijklmnopqrstuvwxyz '")])
            left -= 1
    return bytes(out)


def case_size(rng, tier, target=None):
    p = Prog(rng)
    if target is None:
        target = rng.choice([rng.randrange(1016, 1033), rng.randrange(1016, 1033), rng.randrange(2000, 5000),
                             rng.choice([2047, 2048, 2049, 4096, 8192, 16384, 32768, 65535, 65536, 65537])])
    for _ in range(20):
        s = gen_spec(rng, rng.choice([0, 1, 2, 3]), rng.choice([1, 2, 3]))
        node = spec_to_node(s)
        if rlen(node, None) <= target - 12:
            break
    else:
        s = Spec("tag", b"a")
        node = spec_to_node(s)
    v = p.build(s, style="bottomup")
    T = "v%d" % v
    for _ in range(rng.choice([0, 1, 2])):
        cur = rlen(node, None)
        if target - cur > 40:
            pad_to(rng, p, T, node, rng.randrange(cur + 1, target - 20))
    pad_to(rng, p, T, node, target)
    p.emit("render", T)
    p.emit("xrender", hx(JC), T, "-")
    n = rlen(node, None)
    p.emit("xrender", hx(JC), T, rng.choice([0, 1, n - 1, n - 2, max(0, n - 3), rng.randrange(0, n)]))
    p.reread(T)
    w = p.var()
    p.emit("copy", T, "v%d" % w)
    p.emit("render", "v%d" % w)
    p.emit("dump", "v%d" % w)
    p.emit("end")
    return p.ops


def case_attrs(rng, tier):
    """hash-table stress on one element"""
    p = Prog(rng)
    v = p.var()
    T = "v%d" % v
    p.emit("new", T)
    p.emit("name", T, hx(rname(rng, COMMON_NAMES)))
    keys = [rname(rng, COMMON_KEYS, wide=0.2) for _ in range(rng.choice([3, 6, 10, 20]))]
    if rng.random() < 0.6:
        keys.append(XMLNS)
    # keys that fall into one bucket: the bucket depends on bytes 0, 4, 8, … only
    base = rng.choice(["a", "q", "y"])
    keys += [(base + "".join(rng.choice(ASCII_NAME_REST) for _ in range(rng.choice([0, 1, 2, 3])))).encode()
             for _ in range(rng.choice([0, 3, 6]))]
    live = set()
    for _ in range(rng.choice([5, 12, 30, 60])):
        k = rng.choice(keys)
        r = rng.random()
        if r < 0.6:
            val = rns(rng) if k == XMLNS else rtext(rng, attr=True, maxlen=10)
            p.emit("attr", T, hx(k), hx(val))
            live.add(k)
        elif r < 0.85:
            p.emit("delattr", T, hx(k))
            live.discard(k)
        else:
            p.emit("getattr", T, hx(k))
        if rng.random() < 0.35:
            p.emit("attrs", T)
        if rng.random() < 0.15:
            p.emit("render", T)
    p.emit("attrs", T)
    p.observe(T)
    w = p.var()
    p.emit("copy", T, "v%d" % w)
    p.emit("attrs", "v%d" % w)
    p.emit("render", "v%d" % w)
    p.reread(T)
    p.emit("end")
    return p.ops


def rjid(rng):
    if rng.random() < 0.2:
        return rtext(rng, attr=True, maxlen=10)
    return ("%s@%s/%s" % (rng.choice(["romeo", "juliet", "a", "ü"]), rng.choice(["example.net", "x.y"]),
                          rng.choice(["orchard", "r&d", "<r>", "\"q\""]))).encode()


def case_reply(rng, tier):
    p = Prog(rng)
    name = rng.choice([b"message", b"iq", b"presence", rname(rng, COMMON_NAMES)])
    attrs = []
    if rng.random() < 0.85:
        attrs.append((b"from", rjid(rng)))
    if rng.random() < 0.7:
        attrs.append((b"to", rjid(rng)))
    if rng.random() < 0.6:
        attrs.append((b"id", rtext(rng, attr=True, maxlen=8)))
    if rng.random() < 0.6:
        attrs.append((b"type", rng.choice([b"get", b"set", b"chat", b"result", b"error"])))
    if rng.random() < 0.6:
        attrs.append((XMLNS, rng.choice([JC, b"jabber:server", b"x"])))
    for _ in range(rng.choice([0, 0, 1, 3])):
        k = rname(rng, COMMON_KEYS)
        if k not in dict(attrs):
            attrs.append((k, rtext(rng, attr=True)))
    rng.shuffle(attrs)
    kids = [gen_spec(rng, 1, 2, top=False) for _ in range(rng.choice([0, 1, 2]))]
    s = Spec("tag", name, attrs, kids)
    v = p.build(s, style="bottomup")
    T = "v%d" % v
    p.emit("dump", T)
    for _ in range(rng.choice([1, 2, 3])):
        w = p.var()
        W = "v%d" % w
        r = rng.random()
        if r < 0.3:
            p.emit("reply", T, W)
        else:
            et = rng.choice([b"cancel", b"modify", b"auth", b"wait", b"continue", rtext(rng, attr=True, maxlen=6)])
            cond = rng.choice(RFC6120_STANZA_CONDITIONS).encode() if rng.random() < 0.85 else rname(rng, COMMON_NAMES)
            tx = rtext(rng) if rng.random() < 0.6 else None
            a = [et, cond, tx]
            if rng.random() < 0.08:
                a[rng.randrange(2)] = None
            p.emit("replyerr", T, W, hx(a[0]), hx(a[1]), hx(a[2]))
        p.emit("dump", W)
        p.emit("render", W)
        p.emit("getattr", W, hx(b"to"))
        p.emit("getattr", W, hx(b"from"))
        p.emit("xrender", hx(JC), W, "-")
        p.emit("attrs", W)
        if rng.random() < 0.5:
            p.reread(W)
        # the reply is independent of the original
        p.emit("attr", W, hx(b"id"), hx(b"changed"))
        p.emit("dump", T)
        p.emit("rel", W)
        p.give(w)
    if rng.random() < 0.3:
        # replies to things that are not addressed stanzas
        x = p.var()
        p.emit("new", "v%d" % x)
        y = p.var()
        p.emit("reply", "v%d" % x, "v%d" % y)
        p.emit("text", "v%d" % x, hx(b"t"))
        p.emit("reply", "v%d" % x, "v%d" % y)
        p.emit("replyerr", "v%d" % x, "v%d" % y, hx(b"cancel"), hx(b"gone"), "-")
    p.emit("end")
    return p.ops


def case_errnew(rng, tier):
    p = Prog(rng)
    tys = list(range(-1, 26)) if rng.random() < 0.3 else [rng.randrange(-2, 27) for _ in range(4)]
    for ty in tys:
        w = p.var()
        W = "v%d" % w
        p.emit("errnew", ty, hx(rtext(rng)) if rng.random() < 0.6 else "-", W)
        p.emit("dump", W)
        p.emit("render", W)
        p.emit("rel", W)
        p.give(w)
    p.emit("end")
    return p.ops


def rhostile(rng):
    n = rng.choice([1, 2, 3, 5, 9, 20])
    r = rng.random()
    if r < 0.3:
        return bytes(rng.randrange(1, 256) for _ in range(n))
    if r < 0.5:
        return bytes(rng.choice([1, 8, 11, 12, 14, 31, 9, 10, 13, 0x41]) for _ in range(n))
    if r < 0.65:
        return rng.choice([b"\xef\xbf\xbe", b"\xef\xbf\xbf", b"\xed\xa0\x80", b"\xed\xbf\xbf", b"\xc0\xaf", b"\xc1\xbf",
                           b"\xe0\x80\xaf", b"\xe0\x9f\xbf", b"\xf0\x80\x80\xaf", b"\xf0\x8f\xbf\xbf", b"\xf4\x90\x80\x80",
                           b"\xf5\x80\x80\x80", b"\xff", b"\xfe", b"\x80", b"\xbf", b"\xc2", b"\xe2\x82", b"\xf0\x9f\x98",
                           b"a\xc2", b"\xc2<", b"\xe2\x82\"", b"\xef\xbf\xbd", b"\xee\x80\x80", b"\xed\x9f\xbf",
                           b"\xf4\x8f\xbf\xbf", b"\xf0\x90\x80\x80", b"\xe0\xa0\x80", b"\xc2\x80", b"\xdf\xbf"])
    if r < 0.8:
        return rtext(rng) + b"\r" + rtext(rng)
    if r < 0.9:
        return rtext(rng) + b"\0" + rtext(rng)
    return rtext(rng, attr=True) + rng.choice([b"\t", b"\n", b"\r\n"]) + rtext(rng, attr=True)


def case_hostile(rng, tier):
    """bytes outside the quantifier (controls, malformed UTF-8, NUL, CR): the rendering must still be
    structurally intact, every XML reader must refuse what is not XML, and the model must agree"""
    p = Prog(rng)
    v = p.var()
    T = "v%d" % v
    p.emit("new", T)
    p.emit("name", T, hx(rname(rng, COMMON_NAMES)))
    if rng.random() < 0.5:
        p.emit("ns", T, hx(rng.choice(NAMESPACES)))
    for _ in range(rng.choice([1, 2, 3])):
        r = rng.random()
        if r < 0.5:
            c = p.var()
            p.emit("new", "v%d" % c)
            p.emit(rng.choice(["text", "textz"]), "v%d" % c, hx(rhostile(rng)))
            p.emit("child", T, "v%d" % c)
            p.give(c)
        else:
            p.emit("attr", T, hx(rname(rng, COMMON_KEYS)), hx(rhostile(rng)))
    p.emit("render", T)
    p.emit("dump", T)
    p.emit("xrender", hx(JC), T, "-")
    w = p.var()
    p.emit("reparse", T, "v%d" % w)
    p.emit("dump", "v%d" % w)
    p.emit("end")
    return p.ops


def case_misuse(rng, tier):
    p = Prog(rng)
    a, b, c, d = (p.var() for _ in range(4))
    A, B, C, D = ("v%d" % x for x in (a, b, c, d))
    seq = [
        ("render", A), ("new", A), ("new", A), ("render", A), ("dump", A), ("attr", A, hx(b"k"), hx(b"v")),
        ("delattr", A, hx(b"k")), ("getattr", A, hx(b"k")), ("attrs", A), ("reply", A, B), ("copy", A, B), ("dump", B),
        ("new", C), ("text", C, hx(b"t<")), ("name", C, hx(b"n")), ("attr", C, hx(b"k"), hx(b"v")), ("attrs", C),
        ("render", C), ("xrender", hx(JC), C, "-"), ("reparse", C, D), ("child", C, B), ("dump", C), ("render", C),
        ("copy", C, B), ("dump", B), ("rel", B),
        ("name", A, hx(b"p")), ("text", A, hx(b"x")), ("textz", A, hx(b"x")), ("delattr", A, hx(b"k")),
        ("new", B), ("child", A, B), ("render", A), ("dump", A), ("name", A + "/0", hx(b"q")), ("render", A),
        ("child", A, A), ("child", A + "/0", A), ("child", A + "/5", C), ("child", A, "v63"), ("render", A + "/1"),
        ("dump", A + "/0/0"), ("child", A + "/0", C), ("render", A), ("dump", A), ("copy", A, A), ("rel", A),
        ("rel", A), ("dump", A), ("bogus",), ("new", "v64"), ("new", "x1"), ("name", "v1/", "61"), ("name", A, "6"),
        ("attr", A, "zz", "61"), ("errnew", "x", "-", A), ("render", "v1//2"), ("xcanon", "-", hx(b"<a/>")),
        ("parse", hx(b"<a"), B), ("parse", hx(b"<a><b>x</b>y<c xmlns=\"n\" k=\"v\"/></a>"), B), ("dump", B), ("render", B),
        ("parse", hx(b"<a/>"), B),
    ]
    k = rng.randrange(len(seq) // 2, len(seq) + 1) if rng.random() < 0.5 else len(seq)
    for s in seq[:k]:
        p.emit(*s)
    # a tag that gets its name only after children were added; children added to text / unknown nodes
    x, y = p.var(), p.var()
    X, Y = "v%d" % x, "v%d" % y
    p.emit("new", X)
    p.emit("new", Y)
    p.emit("name", Y, hx(b"kid"))
    p.emit("child", X, Y)
    p.emit("dump", X)
    p.emit("render", X)
    p.emit(rng.choice(["name", "text"]), X, hx(b"late"))
    p.emit("dump", X)
    p.emit("render", X)
    p.emit("copy", X, Y)
    p.emit("dump", Y)
    p.emit("end")
    return p.ops


F2_MARK = "xcanon - " + hx(b"<undeclared-ns-stream/>")


def case_undeclared(rng, tier):
    """the `xmlns=\"\"` below a namespaced ancestor shape (known finding F2: parser_expat.c does not keep the
    un-declaration, so the re-read tree, rendered again, moves the element into the ancestor's namespace).
    Kept in its own stream, marked by its first op, so that the finding is reported by signature on every run
    while every other re-read mismatch stays a violation."""
    p = Prog(rng)
    p.emit(F2_MARK)
    top = gen_spec(rng, 0, 0)
    top.attrs = [(k, v) for k, v in top.attrs if k != XMLNS] + [(XMLNS, rng.choice(NAMESPACES[1:]))]
    mid = top
    for _ in range(rng.choice([0, 0, 1, 2])):
        nxt = Spec("tag", rname(rng, COMMON_NAMES), [], [])
        mid.kids.append(nxt)
        if rng.random() < 0.5:
            mid.kids.append(Spec("text", text=rtext(rng)))
        mid = nxt
    leaf = gen_spec(rng, rng.choice([0, 1]), 2, top=False)
    leaf.attrs = [(k, v) for k, v in leaf.attrs if k != XMLNS] + [(XMLNS, b"")]
    mid.kids.append(leaf)
    v = p.build(top)
    T = "v%d" % v
    p.observe(T)
    p.reread(T)
    p.emit("end")
    return p.ops


def fixed_cases():
    """hand-written programs run in every tier"""
    h = hx
    c1 = ["new v0", "name v0 " + h(b"message"), "ns v0 " + h(JC), "attr v0 " + h(b"to") + " " + h(b"a<b>&\"'c"),
          "new v1", "name v1 " + h(b"body"), "ns v1 " + h(JC), "new v2", "text v2 " + h(b"x < y && \"z\" > 'w'"),
          "child v1 v2", "child v0 v1", "render v0", "dump v0", "xrender " + h(JC) + " v0 -", "xrender - v0 -",
          "render v0/0", "xrender " + h(JC) + " v0/0 -", "reparse v0 v3", "dump v3", "render v3", "end"]
    # the twelve break-out attempts of the property statement, as text and as attribute value
    c2 = []
    for i, s in enumerate([b"</a><b>", b"\"/><b x=\"", b"'/><b x='", b"]]>", b"<!--", b"&lt;", b"&#60;", b"<![CDATA[<]]>",
                           b"<?xml?>", b"&", b">", b"\" onload=\"x"]):
        c2 += ["new v0", "name v0 " + h(b"a"), "attr v0 " + h(b"k") + " " + h(s), "new v1", "text v1 " + h(s),
               "child v0 v1", "render v0", "xrender " + h(JC) + " v0 -", "reparse v0 v2", "dump v2", "rel v2", "rel v0"]
    c2.append("end")
    return [c1, c2]


def generate(rng, tier, override=0):
    cases = fixed_cases()
    if override:
        n = override
    else:
        n = 600 if tier == "quick" else 12000
    for _ in range(3 if tier == "quick" else 30):
        cases.append(case_undeclared(rng, tier))
    kinds = [(case_tree, 0.42), (case_size, 0.2), (case_attrs, 0.1), (case_reply, 0.12), (case_errnew, 0.03),
             (case_hostile, 0.08), (case_misuse, 0.05)]
    # every exact size around the first buffer once per run
    for target in range(1016, 1033):
        cases.append(case_size(rng, tier, target))
    if tier != "quick":
        for target in (2048, 4095, 4096, 65535, 65536, 65537, 100000):
            cases.append(case_size(rng, tier, target))
    for _ in range(n):
        r = rng.random()
        acc = 0.0
        for fn, w in kinds:
            acc += w
            if r < acc:
                cases.append(fn(rng, tier))
                break
        else:
            cases.append(case_tree(rng, tier))
    return cases


# =============================================================================================

def signature(case, i, what):
    op = case.ops[i] if 0 <= i < len(case.ops) else "?"
    kind = op.split(" ")[0]
    w = what.split(" ")
    head = w[0]
    if head == "ORACLE-FAIL" and len(w) > 1:
        head = w[1]
    if head == "crash":
        m = re.search(r"AddressSanitizer: (\S+)|runtime error: (\w+)", what)
        fn = re.search(r" in (\w+) ", what)
        head = "crash-%s-%s" % ((m.group(1) or m.group(2)) if m else "x", fn.group(1) if fn else "x")
    return "%s:%s:%s" % (ID, kind, head)


def size_class(n):
    if n < 1016:
        return "lt1016"
    if n <= 1032:
        return "n%d" % n
    if n < 4096:
        return "lt4k"
    if n < 65536:
        return "lt64k"
    return "ge64k"


def tags(case, outs):
    res = []
    f2 = bool(case.ops) and case.ops[0] == F2_MARK
    for op, out in zip(case.ops, outs):
        t = op.split(" ")
        k = t[0]
        o = out.split(" ")
        if k == "render":
            if len(o) == 3 and o[1] != "err":
                data = unhx(o[1])
                cls = "".join(c for c, p in (("e", b"&" in data), ("m", any(x >= 0x80 for x in data)),
                                             ("n", b"xmlns=" in data), ("p", "/" in t[1]))
                              if p)
                res.append("render:%s:%s" % (size_class(len(data)), cls))
            else:
                res.append("render:" + "-".join(o[1:3]))
        elif k in ("xrender", "xcanon"):
            res.append("%s:%s:%s" % (k, o[1] if len(o) > 1 else "?", "trunc" if t[-1] != "-" and k == "xrender" else "full"))
        elif k == "attrs":
            res.append("attrs:%s" % (o[2] if len(o) > 2 and len(o[2]) < 3 else "many"))
        elif k in ("dump",):
            res.append("dump:%s" % ("path" if "/" in t[1] else "root"))
        elif k == "reparse" and f2:
            res.append("reparse:undeclared-ns-stream:" + "-".join(o[1:2]))
        else:
            res.append("%s:%s" % (k, "-".join(o[1:3])[:24]))
    return res
