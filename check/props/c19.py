"""C19 — JID helpers.  Engine `jid` (pure)."""
from .common import hx, unhx, rbytes, load_corpus

ID = "C19"
ENGINE = "jid"
VARIANT = "std"
STATEFUL = False
LEVEL = "proof"
FILES = ["jid.c"]
TRUSTED = ["model Strophe/Model/Jid.lean tied to src/jid.c by differential execution (engine jid)"]
ASSUMPTIONS = ["inputs are NUL-free C strings (the property's domain)",
               "allocation failure paths are not modelled"]
RULE = ("random strings over an alphabet biased to @ / : & ' \" < > and multi-byte UTF-8, part lengths "
        "around 1023; a case is non-trivial/distinct by its tag (op, which separators occur, "
        "result null or not, length class)")

SPECIAL = b"@/:&'\"<>"
ALPHA = list(b"ab.-_ z") + list(SPECIAL) * 2 + [0xC3, 0xA9, 0xE2, 0x82, 0xAC, 0xF0, 0x9F, 0x98, 0x80, 1, 255]


def rstr(rng, maxlen=12):
    n = rng.choice([0, 1, 2, 3, 5, 8, maxlen])
    return rbytes(rng, rng.randrange(n + 1), ALPHA)


def rpart(rng, safe=False):
    r = rng.random()
    if r < 0.12:
        return None
    if r < 0.30:
        n = rng.choice([1020, 1021, 1022, 1023, 1024, 1025, 1026])
        return rbytes(rng, n, list(b"abcdefgh") if (safe or rng.random() < 0.8) else ALPHA)
    if safe or rng.random() < 0.5:
        return rbytes(rng, rng.randrange(0, 10), list(b"abc.-_") + [0xC3, 0xA9])
    return rstr(rng)


def corpus():
    return load_corpus(ID)


def generate(rng, tier, override=0):
    n = override or (4000 if tier == "quick" else 120000)
    ops = []
    for i in range(n):
        k = rng.random()
        if k < 0.55:
            s = rstr(rng, 16)
            if rng.random() < 0.3:
                # structured: node@domain/resource with extra separators
                s = rstr(rng, 4) + b"@" + rstr(rng, 5) + b"/" + rstr(rng, 6)
            if rng.random() < 0.05:
                s = rbytes(rng, rng.choice([1023, 1024, 2047]), ALPHA)
            ops.append("%s %s" % (rng.choice(["node", "domain", "resource", "bare"]), hx(s)))
        else:
            ops.append("new %s %s %s" % (hx(rpart(rng)), hx(rpart(rng, safe=rng.random() < 0.5)), hx(rpart(rng))))
    # stateless: one case holding many independent ops keeps process start-up cost low
    return [ops[i:i + 500] for i in range(0, len(ops), 500)]


FORBIDDEN = b"\"&'/:<>@"


def ref(op):
    """Model-free reference straight from the property text."""
    t = op.split(" ")
    if t[0] == "new":
        n, d, r = unhx(t[1]), unhx(t[2]), unhx(t[3])
        if d is None:
            return None
        if len(d) > 1023 or (n is not None and len(n) > 1023) or (r is not None and len(r) > 1023):
            return None
        if n is not None and any(c in FORBIDDEN for c in n):
            return None
        return (n + b"@" if n is not None else b"") + d + (b"/" + r if r is not None else b"")
    s = unhx(t[1])
    bare, sep, res = s.partition(b"/")
    if t[0] == "bare":
        return bare
    if t[0] == "resource":
        return res if sep else None
    node, at, dom = bare.partition(b"@")
    if t[0] == "node":
        return node if at else None
    if t[0] == "domain":
        return dom if at else bare
    raise ValueError(op)


def py_oracle(ops, outs):
    fails = []
    for i, (op, out) in enumerate(zip(ops, outs)):
        exp = ref(op)
        want = "= null" if exp is None else "= " + hx(exp)
        if out != want:
            fails.append((i, "jid-mismatch %s: got %s want %s" % (op[:80], out[:80], want[:80])))
    return fails


def signature(case, i, what):
    op = case.ops[i] if i < len(case.ops) else "?"
    return "%s:%s:%s" % (ID, op.split(" ")[0], what.split(" ")[0])


def tags(case, outs):
    res = []
    for op, out in zip(case.ops, outs):
        t = op.split(" ")
        if t[0] == "new":
            parts = [unhx(x) for x in t[1:4]]
            cls = tuple("-" if p is None else ("L" if len(p) > 1023 else ("e" if len(p) == 0 else "s")) for p in parts)
            bad = parts[0] is not None and any(c in FORBIDDEN for c in parts[0])
            res.append("new:%s:%s:%s" % ("".join(cls), "bad" if bad else "ok", "null" if out == "= null" else "str"))
        else:
            s = unhx(t[1])
            res.append("%s:at%d:sl%d:%s" % (t[0], min(s.count(b"@"), 2), min(s.count(b"/"), 2),
                                             "null" if out == "= null" else "str"))
    return res
