"""companion pass of C20: negotiation of stream compression (auth.c) on engine `conn` -- compression
may start only after the server confirmed it (sessions with XMPP_CONN_FLAG_COMPRESSION in which the
server offers zlib and then refuses)"""
from . import conn_gen, c01

ID = "C20"
ENGINE = "conn"
VARIANT = "std"
STATEFUL = True
LEVEL = "proof"
FILES = c01.FILES
TRUSTED = c01.TRUSTED
ASSUMPTIONS = c01.ASSUMPTIONS
RULE = c01.RULE
lean_input = conn_gen.lean_input
IGNORE_ORACLE = ["leak"]
PAT = c01.PAT


def corpus():
    return []


def generate(rng, tier, override=0):
    n = override or 200
    return [conn_gen.gen_session(rng, tier, "compress") for _ in range(n)]


def py_oracle(ops, outs):
    """the server never sent <compressed/>: everything the client writes must be intelligible XML
    (the harness classifies it); `raw:n` = bytes that are not an element the library or the user
    produced, i.e. a deflated stream"""
    fails = []
    if any(o.startswith("rx ") and b"<compressed" in (bytes.fromhex(o[3:]) if len(o) > 3 and o[3:] not in (".", "-") else b"")
           for o in ops):
        return fails
    for i, out in enumerate(outs):
        m = PAT.match(out) if hasattr(PAT, "match") else None
        tx = out.split(" | tx ")[1].split(" | ")[0] if " | tx " in out else "-"
        unblocked = not any(o.startswith("wr ") and o != "wr all" for o in ops)
        if any(it.startswith("raw:") or (unblocked and it.startswith("PARTIAL:")) for it in tx.split(",")):
            fails.append((i, "compressed-before-confirmed %s" % tx[:40]))
            break
    return fails


def signature(case, i, what):
    return c01.signature(case, i, what).replace("C01", ID, 1)


tags = c01.tags
