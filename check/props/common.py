"""Helpers shared by the per-property generator/oracle modules."""


def hx(b):
    if b is None:
        return "-"
    if len(b) == 0:
        return "."
    return bytes(b).hex()


def unhx(s):
    if s == "-":
        return None
    if s == ".":
        return b""
    return bytes.fromhex(s)


def rbytes(rng, n, alphabet=None):
    if alphabet is None:
        return bytes(rng.randrange(256) for _ in range(n))
    return bytes(rng.choice(alphabet) for _ in range(n))


def load_corpus(pid):
    """corpus/<pid>/*.ops — one case per file (minimised past failures, run first)."""
    import glob
    import os
    here = os.path.dirname(os.path.dirname(os.path.dirname(os.path.abspath(__file__))))
    res = []
    for f in sorted(glob.glob(os.path.join(here, "corpus", pid, "*.ops"))):
        with open(f) as fh:
            ops = [l.strip() for l in fh if l.strip() and not l.startswith("#")]
        if ops:
            res.append(ops)
    return res
