"""C11 — handlers fire exactly when their filter matches, in order, and stay deleted.
Engine `hnd`: the real handler.c driven through the public API on real connection objects, scripted
callbacks (harness/eng_hnd.c); model Strophe/Model/Handler.lean (Drv/Hnd.lean)."""
import re

from .common import hx, unhx, load_corpus

ID = "C11"
ENGINE = "hnd"
VARIANT = "std"
STATEFUL = True
LEVEL = "proof"
FILES = ["handler.c", "conn.c", "event.c", "hash.c", "util.c"]
TRUSTED = ["model Strophe/Model/Handler.lean tied to handler.c by differential execution (engine hnd): after "
           "EVERY op the callback invocations in order and the complete stanza / id / timed / context-wide "
           "handler lists (callback, user data, user flag, enabled flag, filters, period, last stamp) read from "
           "the internal structures of the real connection objects are compared with the model's",
           "id-handler table (hash.c) modelled as a finite map id -> list; the real table is used by the harness",
           "py_oracle: independent Python reference written from the property text (snapshot semantics); "
           "it adopts the implementation's order of timed handlers within one pass (newest first), which "
           "the property leaves open"]
ASSUMPTIONS = ["handler.c has the shape extract/gen_handler.py reads off it (Gen/Handler.lean, pin_structure)",
               "callbacks are scripts: per callback x user data, the k-th invocation returns keep/remove and performs "
               "a list of API calls (add stanza/id/timed/global handler, delete by callback, send, let time pass)",
               "virtual clock is monotone and stays below 2^64 ms",
               "allocation failures not modelled",
               "KNOWN FINDING C11:self-delete:*: a callback that deletes its own callback function from the list it is "
               "being dispatched from makes the loop read a freed item (model: Err.stale; theorems carry "
               "`¬ SelfDeleting beh`); such programs are generated on purpose (marked stream + 3% of delete actions)"]
RULE = ("systematic sweep (every list kind x every position i of the acting handler x every position j of the "
        "handler it deletes / every add kind x keep/remove) + random programs: 2-10 registrations sharing ids, "
        "namespaces, names, duplicates, system handlers; scripts of 1-4 steps with 0-3 API calls each; 5-40 ops of "
        "fire (stanzas drawn from the same pools) / firetimed / tick around period boundaries / add / delete / "
        "state / neg / reset / sysdel / clear; distinct = tag (op kind, number of invocations, lists changed "
        "during dispatch, gate/connected classes)")

NF, NU, NC = 6, 3, 2
NS = [b"ns:a", b"ns:b", b"jabber:client", b""]
NAMES = [b"message", b"iq", b"presence"]
TYPES = [b"get", b"result", b"chat", b""]
IDS = [b"id1", b"id2", b"q", b""]
PERIODS = [0, 1, 10, 50, 100]
TICKS = [0, 1, 9, 10, 11, 49, 50, 51, 99, 100, 101]


def corpus():
    return load_corpus(ID)


# ---------------------------------------------------------------------------------------------
# generator

def opt(rng, pool, p_none):
    return None if rng.random() < p_none else rng.choice(pool)


def g_filter(rng):
    return "%s %s %s" % (hx(opt(rng, NS, 0.5)), hx(opt(rng, NAMES, 0.5)), hx(opt(rng, TYPES, 0.6)))


def g_add(rng, kinds="hitg", sysok=False):
    k = rng.choice(kinds)
    c, f, u = rng.randrange(NC), rng.randrange(NF), rng.randrange(NU)
    s = "s" if sysok and rng.random() < 0.2 else ""
    if k == "h":
        return "add%s %d %d %d %s" % (s, c, f, u, g_filter(rng))
    if k == "i":
        return "addid%s %d %d %d %s" % (s, c, f, u, hx(rng.choice(IDS)))
    if k == "t":
        return "addt%s %d %d %d %d" % (s, c, f, u, rng.choice(PERIODS))
    return "addg %d %d %d" % (f, u, rng.choice(PERIODS))


def g_del(rng, not_fn=None):
    f = rng.randrange(NF)
    while f == not_fn:
        f = rng.randrange(NF)
    k = rng.choice("hhiitg")
    c = rng.randrange(NC)
    if k == "h":
        return "del %d %d" % (c, f)
    if k == "i":
        return "delid %d %d %s" % (c, f, hx(rng.choice(IDS)))
    if k == "t":
        return "delt %d %d" % (c, f)
    return "delg %d" % f


def g_action(rng, self_fn, glob=False):
    k = rng.random()
    if glob:
        # actions that need no connection object (cases that use `firetimed0`)
        if k < 0.45:
            return g_add(rng, "g")
        if k < 0.85:
            f = rng.randrange(NF)
            while f == self_fn and rng.random() >= 0.03:
                f = rng.randrange(NF)
            return "delg %d" % f
        return "tick %d" % rng.choice(TICKS)
    if k < 0.40:
        return g_add(rng, "hhhiitg")
    if k < 0.80:
        # rarely the handler's own callback function: harmless when it hits another list than the one
        # the handler is dispatched from, the known finding `self-delete` otherwise
        return g_del(rng, None if rng.random() < 0.03 else self_fn)
    if k < 0.92:
        return "send %d" % rng.randrange(NC)
    return "tick %d" % rng.choice(TICKS)


def g_beh(rng, f=None, u=None, plain=False, glob=False):
    f = rng.randrange(NF) if f is None else f
    u = rng.randrange(NU) if u is None else u
    steps = []
    for _ in range(rng.randrange(1, 5)):
        s = "r" if rng.random() < 0.25 else "k"
        if not plain:
            for _ in range(rng.choice([0, 0, 1, 1, 2, 3])):
                s += " " + g_action(rng, f, glob)
        steps.append(s)
    return "beh %d %d %s" % (f, u, " ; ".join(steps))


def g_fire(rng):
    ch = [hx(opt(rng, NS, 0.3)) for _ in range(rng.choice([0, 0, 1, 2, 3]))]
    return ("fire %d %s %s %s %s %s" % (rng.randrange(NC), hx(rng.choice(NAMES)), hx(opt(rng, NS, 0.3)),
                                         hx(opt(rng, TYPES, 0.4)), hx(opt(rng, IDS, 0.3)), " ".join(ch))).rstrip()


def gen_case(rng, maxlen):
    ops = []
    mode = rng.random()
    plain = mode < 0.15           # non-mutating scripts only
    glob = 0.15 <= mode < 0.27    # callbacks act on the context only: the timers may run without any connection
    for _ in range(rng.randrange(2, 11)):
        ops.append(g_add(rng, "hhhhiiittg", sysok=True))
    for _ in range(rng.randrange(0, 9)):
        ops.append(g_beh(rng, plain=plain, glob=glob))
    for _ in range(rng.randrange(5, maxlen + 1)):
        k = rng.random()
        if k < 0.45:
            ops.append(g_fire(rng))
        elif k < 0.57:
            ops.append("firetimed0" if (glob or plain) and rng.random() < 0.4 else "firetimed")
        elif k < 0.67:
            ops.append("tick %d" % rng.choice(TICKS))
        elif k < 0.77:
            ops.append(g_add(rng, "hhiitg", sysok=True))
        elif k < 0.83:
            ops.append(g_del(rng))
        elif k < 0.88:
            ops.append(g_beh(rng, plain=plain, glob=glob))
        elif k < 0.91:
            ops.append("state %d %s" % (rng.randrange(NC), rng.choice(["connected", "disconnected", "connecting"])))
        elif k < 0.94:
            ops.append("neg %d %d" % (rng.randrange(NC), rng.randrange(2)))
        elif k < 0.96:
            ops.append("reset %d %d" % (rng.randrange(NC), rng.randrange(2)))
        elif k < 0.98:
            ops.append("sysdel %d" % rng.randrange(NC))
        elif k < 0.99:
            ops.append("clear")
        else:
            ops.append("send %d" % rng.randrange(NC))
    return ops


def sweep_cases():
    """every list kind x position of the acting handler x position of its victim x keep/remove,
    and every add kind at every position"""
    cases = []
    n = 4
    regs = {"h": ["add 0 %d 0 - - -" % i for i in range(n)],
            "i": ["addid 0 %d 0 6964" % i for i in range(n)],
            "t": ["addt 0 %d 0 10" % i for i in range(n)],
            "g": ["addg %d 0 10" % i for i in range(n)]}
    dele = {"h": "del 0 %d", "i": "delid 0 %d 6964", "t": "delt 0 %d", "g": "delg %d"}
    go = {"h": ["fire 0 6971 - - -", "fire 0 6971 - - -"],
          "i": ["fire 0 6971 - - 6964", "fire 0 6971 - - 6964"],
          "t": ["tick 10", "firetimed", "tick 10", "firetimed"],
          "g": ["tick 10", "firetimed", "tick 10", "firetimed"]}
    adds = ["add 0 5 1 - - -", "addid 0 5 1 6964", "addt 0 5 1 0", "addg 5 1 0", "add 0 0 0 6e73 - -",
            "addid 0 0 0 6964", "send 0", "tick 10"]
    for kind in "hitg":
        for i in range(n):
            for ret in "kr":
                for j in range(n):
                    if j != i:
                        cases.append(regs[kind] + ["beh %d 0 %s %s" % (i, ret, dele[kind] % j)] + go[kind])
                for a in adds:
                    cases.append(regs[kind] + ["beh %d 0 %s %s" % (i, ret, a)] + go[kind])
                # delete two others and re-add one of them in the same step
                j, k2 = (i + 1) % n, (i + 2) % n
                cases.append(regs[kind] + ["beh %d 0 %s %s %s %s" % (i, ret, dele[kind] % j, dele[kind] % k2,
                                                                      regs[kind][j])] + go[kind])
    # an id handler that works on the stanza list and vice versa
    cases.append(regs["h"] + regs["i"] + ["beh 1 0 k del 0 2 add 0 5 0 - - -", "fire 0 6971 - - 6964",
                                          "fire 0 6971 - - 6964"])
    cases.append(regs["h"] + regs["i"] + ["beh 1 0 r delid 0 0 6964 delid 0 2 6964 addid 0 5 0 6964",
                                          "fire 0 6971 - - 6964", "fire 0 6971 - - 6964"])
    return cases


def self_delete_cases():
    """KNOWN FINDING stream: a callback deletes its own callback function (itself or a sibling
    registration with other user data) from the list it is being dispatched from"""
    return [["add 0 1 0 - - -", "add 0 1 1 - - -", "add 0 2 0 - - -", "beh 1 0 k del 0 1", "fire 0 6971 - - -"],
            ["addid 0 2 0 6964", "addid 0 1 0 6964", "beh 1 0 r delid 0 1 6964", "fire 0 6971 - - 6964"],
            ["addt 0 1 0 0", "addt 0 2 0 0", "beh 1 0 k delt 0 1", "firetimed"],
            ["addg 1 0 0", "beh 1 0 r delg 1", "firetimed"]]


def generate(rng, tier, override=0):
    n = override or (3000 if tier == "quick" else 60000)
    maxlen = 40 if tier == "quick" else 120
    cases = sweep_cases() + self_delete_cases()
    cases += [gen_case(rng, maxlen if rng.random() < 0.2 else 18) for _ in range(n)]
    return cases


# ---------------------------------------------------------------------------------------------
# model-free reference, written from the property text

class Reg:
    __slots__ = ("fn", "ud", "user", "ns", "name", "type", "period", "last")

    def __init__(self, fn, ud, user, ns=None, name=None, type_=None, period=0, last=0):
        self.fn, self.ud, self.user = fn, ud, user
        self.ns, self.name, self.type = ns, name, type_
        self.period, self.last = period, last


class RConn:
    def __init__(self):
        self.connected = True
        self.neg = True
        self.sendq = 0
        self.H = []
        self.I = {}
        self.T = []


class Ref:
    def __init__(self):
        self.conns = [RConn() for _ in range(2)]
        self.G = []
        self.now = 1000000
        self.cnt = {}
        self.script = {}
        self.inv = []
        self.running = None       # (list kind, conn, id, fn) of the callback being executed
        self.self_delete = None   # list kind of the first self-delete seen (known finding)

    # --- registration -------------------------------------------------------------------
    @staticmethod
    def has(lst, fn, ud):
        return any(r.fn == fn and r.ud == ud for r in lst)

    def note_delete(self, kind, c, i, f):
        if self.running == (kind, c, i, f) and self.self_delete is None:
            self.self_delete = {"h": "stanza", "i": "id", "t": "timed", "g": "global"}[kind]

    def act(self, t, user=True):
        """one API call (top-level op or scripted action); returns number of tokens consumed"""
        k = t[0]
        if k == "del":
            self.note_delete("h", int(t[1]), None, int(t[2]))
        elif k == "delid":
            self.note_delete("i", int(t[1]), unhx(t[3]), int(t[2]))
        elif k == "delt":
            self.note_delete("t", int(t[1]), None, int(t[2]))
        elif k == "delg":
            self.note_delete("g", None, None, int(t[1]))
        if k == "add":
            c, f, u = int(t[1]), int(t[2]), int(t[3])
            lst = self.conns[c].H
            if not self.has(lst, f, u):
                lst.append(Reg(f, u, user, unhx(t[4]), unhx(t[5]), unhx(t[6])))
            return 7
        if k == "addid":
            c, f, u, i = int(t[1]), int(t[2]), int(t[3]), unhx(t[4])
            lst = self.conns[c].I.setdefault(i, [])
            if not self.has(lst, f, u):
                lst.append(Reg(f, u, user))
            return 5
        if k == "addt":
            c, f, u, p = int(t[1]), int(t[2]), int(t[3]), int(t[4])
            lst = self.conns[c].T
            if not self.has(lst, f, u):
                lst.insert(0, Reg(f, u, user, period=p, last=self.now))
            return 5
        if k == "addg":
            f, u, p = int(t[1]), int(t[2]), int(t[3])
            if not self.has(self.G, f, u):
                self.G.insert(0, Reg(f, u, True, period=p, last=self.now))
            return 4
        if k == "del":
            c, f = int(t[1]), int(t[2])
            self.conns[c].H = [r for r in self.conns[c].H if r.fn != f]
            return 3
        if k == "delid":
            c, f, i = int(t[1]), int(t[2]), unhx(t[3])
            if i in self.conns[c].I:
                self.conns[c].I[i] = [r for r in self.conns[c].I[i] if r.fn != f]
            return 4
        if k == "delt":
            c, f = int(t[1]), int(t[2])
            self.conns[c].T = [r for r in self.conns[c].T if r.fn != f]
            return 3
        if k == "delg":
            f = int(t[1])
            self.G = [r for r in self.G if r.fn != f]
            return 2
        if k == "send":
            c = int(t[1])
            if self.conns[c].connected and self.conns[c].neg:
                self.conns[c].sendq += 1
            return 2
        if k == "tick":
            self.now += int(t[1])
            return 2
        raise ValueError(k)

    def set_beh(self, t):
        f, u = int(t[1]), int(t[2])
        steps, cur = [], None
        i = 3
        while i < len(t):
            assert t[i] in ("k", "r")
            cur = [t[i] == "k", []]
            steps.append(cur)
            i += 1
            j = i
            while j < len(t) and t[j] != ";":
                j += 1
            cur[1] = t[i:j]
            i = j + 1
        self.script[(f, u)] = steps

    def call(self, reg, token, where):
        """invoke one callback: log, run its scripted API calls, return keep/remove"""
        self.running = where + (reg.fn,)
        try:
            return self.call1(reg, token)
        finally:
            self.running = None

    def call1(self, reg, token):
        self.inv.append(token)
        key = (reg.fn, reg.ud)
        k = self.cnt.get(key, 0)
        self.cnt[key] = k + 1
        steps = self.script.get(key, [])
        if k >= len(steps):
            return True
        keep, toks = steps[k]
        i = 0
        while i < len(toks):
            i += self.act(toks[i:])
        return keep

    # --- dispatch: exactly the handlers registered when the dispatch starts, id handlers first,
    #     registration order, each once, unless deleted meanwhile; user handlers only once the
    #     stream is negotiated --------------------------------------------------------------
    @staticmethod
    def matches(r, name, ns, type_, children):
        return ((r.ns is None or ns == r.ns or any(c == r.ns for c in children)) and
                (r.name is None or name == r.name) and
                (r.type is None or type_ == r.type))

    def fire(self, t):
        c = int(t[1])
        name, ns, type_, id_ = unhx(t[2]), unhx(t[3]), unhx(t[4]), unhx(t[5])
        children = [unhx(x) for x in t[6:]]
        cn = self.conns[c]
        cands = []
        if id_ is not None:
            cands += [("i", r) for r in cn.I.get(id_, [])]
        cands += [("h", r) for r in cn.H]
        for ph, r in cands:
            lst = cn.I.get(id_, []) if ph == "i" else cn.H
            if not any(x is r for x in lst):
                continue                      # deleted before its turn
            if r.user and not cn.neg:
                continue
            if ph == "h" and not self.matches(r, name, ns, type_, children):
                continue
            keep = self.call(r, "s%d:%d.%d:%s" % (c, r.fn, r.ud, hx(name)), (ph, c, id_ if ph == "i" else None))
            if not keep:
                if ph == "i":
                    if id_ in cn.I:
                        cn.I[id_] = [x for x in cn.I[id_] if x is not r]
                else:
                    cn.H = [x for x in cn.H if x is not r]

    def fire_timed(self):
        for c, cn in enumerate(self.conns):
            if not cn.connected:
                continue
            for r in list(cn.T):
                if not any(x is r for x in cn.T):
                    continue
                if r.user and not cn.neg:
                    continue
                if self.now - r.last < r.period:
                    continue
                r.last = self.now
                if not self.call(r, "t%d:%d.%d@%d" % (c, r.fn, r.ud, self.now), ("t", c, None)):
                    cn.T = [x for x in cn.T if x is not r]
        for r in list(self.G):
            if not any(x is r for x in self.G):
                continue
            if self.now - r.last < r.period:
                continue
            r.last = self.now
            if not self.call(r, "g:%d.%d@%d" % (r.fn, r.ud, self.now), ("g", None, None)):
                self.G = [x for x in self.G if x is not r]

    def op(self, line):
        t = line.split(" ")
        self.inv = []
        k = t[0]
        if k == "beh":
            self.set_beh(t)
        elif k == "fire":
            self.fire(t)
        elif k == "firetimed":
            self.fire_timed()
        elif k == "firetimed0":
            self.conns = [RConn() for _ in range(2)]
            self.fire_timed()
        elif k == "state":
            self.conns[int(t[1])].connected = t[2] == "connected"
        elif k == "neg":
            self.conns[int(t[1])].neg = t[2] == "1"
        elif k == "reset":
            for r in self.conns[int(t[1])].T:
                if t[2] == "0" or r.user:
                    r.last = self.now
        elif k == "sysdel":
            cn = self.conns[int(t[1])]
            cn.H = [r for r in cn.H if r.user]
            cn.T = [r for r in cn.T if r.user]
            for i in cn.I:
                cn.I[i] = [r for r in cn.I[i] if r.user]
        elif k == "clear":
            self.conns = [RConn() for _ in range(2)]
        elif k in ("adds", "addids", "addts"):
            self.act([k[:-1]] + t[1:], user=False)
        else:
            self.act(t)

    def render(self):
        """the state in the harness' output format, without the enabled flags"""
        def us(r):
            return "u" if r.user else "s"
        parts = []
        for i, cn in enumerate(self.conns):
            H = ",".join("%d/%d/%s/%s/%s/%s" % (r.fn, r.ud, us(r), hx(r.ns), hx(r.name), hx(r.type)) for r in cn.H)
            ids = sorted(k for k in cn.I if cn.I[k])
            I = ";".join("%s=%s" % (hx(k), ",".join("%d/%d/%s" % (r.fn, r.ud, us(r)) for r in cn.I[k])) for k in ids)
            T = ",".join("%d/%d/%s/%d/%d" % (r.fn, r.ud, us(r), r.period, r.last) for r in cn.T)
            parts.append("c%d %s n%d q%d H[%s] I[%s] T[%s]" % (i, "c" if cn.connected else "d", int(cn.neg),
                                                              cn.sendq, H, I, T))
        G = ",".join("%d/%d/%s/%d/%d" % (r.fn, r.ud, us(r), r.period, r.last) for r in self.G)
        return " | ".join(parts) + " | G[%s] | now %d" % (G, self.now)


PAT = re.compile(r"^= ok \| inv (\S+) \| (c0 .*) \| now (\d+)$")
ENABLED = re.compile(r"(\d+/\d+/[us])/[ed]")


def strip_enabled(s):
    return ENABLED.sub(r"\1", s)


def py_oracle(ops, outs):
    fails = []
    ref = Ref()
    for i, (op, out) in enumerate(zip(ops, outs)):
        if out == "= bad-op":
            fails.append((i, "bad-op %s" % op[:60]))
            break
        m = PAT.match(out)
        if not m:
            if i + 1 < len(outs) or out.endswith("]"):   # else: cut off by a crash (reported as such)
                fails.append((i, "unparsable-output %s" % out[:80]))
            break
        try:
            ref.op(op)
        except Exception as e:  # malformed generated op
            fails.append((i, "reference-error %r" % (e,)))
            break
        want_inv = ",".join(ref.inv) if ref.inv else "-"
        if m.group(1) != want_inv:
            fails.append((i, "inv-mismatch got %s want %s" % (m.group(1)[:120], want_inv[:120])))
            break
        got_state = strip_enabled(m.group(2)) + " | now " + m.group(3)
        want_state = ref.render()
        if got_state != want_state:
            fails.append((i, "lists-mismatch got %s want %s" % (got_state[:200], want_state[:200])))
            break
        # no list ever holds the same callback x user data twice
        lists = re.findall(r"[HTG]\[([^\]]*)\]", m.group(2))
        for ilist in re.findall(r"I\[([^\]]*)\]", m.group(2)):
            lists += [x.split("=", 1)[1] for x in ilist.split(";") if "=" in x]
        for lst in lists:
            keys = [tuple(x.split("/")[:2]) for x in lst.split(",") if x]
            if len(keys) != len(set(keys)):
                fails.append((i, "duplicate-registration %s" % lst[:80]))
    return fails


def self_delete_kind(ops, i):
    """does op i make a callback delete its own callback function from the list it is dispatched
    from (known finding: the loop then reads the freed item)?"""
    ref = Ref()
    try:
        for k, op in enumerate(ops[: i + 1]):
            ref.self_delete = None
            ref.op(op)
    except Exception:
        return None
    return ref.self_delete


def signature(case, i, what):
    w = what.split(" ")
    if w[0] == "crash":
        m = re.search(r"AddressSanitizer: ([a-z-]+)", what)
        kind = m.group(1) if m else "other"
        sd = self_delete_kind(case.ops, i) if i < len(case.ops) else None
        if sd and kind == "heap-use-after-free":
            return "%s:self-delete:%s" % (ID, sd)
        return "%s:crash:%s" % (ID, kind)
    return "%s:%s" % (ID, w[1] if w[0] == "ORACLE-FAIL" and len(w) > 1 else w[0])


def tags(case, outs):
    res = []
    prev = ""
    for op, out in zip(case.ops, outs):
        t = op.split(" ")
        m = PAT.match(out)
        if not m:
            res.append("%s:bad" % t[0])
            continue
        inv = [] if m.group(1) == "-" else m.group(1).split(",")
        state = strip_enabled(m.group(2))
        n = len(inv)
        tag = "%s:n%s" % (t[0], n if n < 4 else "4+")
        if t[0] in ("fire", "firetimed", "firetimed0"):
            tag += ":mut" if (prev and state != prev) else ":same"
            if t[0] == "fire":
                tag += ":id" if t[5] != "-" else ":noid"
                c = int(t[1])
                cm = re.search(r"c%d (\w) n(\d)" % c, m.group(2))
                tag += ":neg%s" % cm.group(2)
            else:
                tag += ":" + "".join(re.findall(r"c\d (\w) n\d", m.group(2)))
        elif t[0] == "beh":
            tag = "beh:%s" % ("plain" if not any(x in t for x in ("add", "addid", "addt", "addg", "del", "delid",
                                                                   "delt", "delg", "send", "tick")) else "acts")
        elif t[0].startswith("add"):
            tag = "%s:%s" % (t[0], "new" if (prev and state != prev) else "dup")
        res.append(tag)
        prev = state
    return res
