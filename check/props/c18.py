"""C18 — base64 codec.  Engine `b64` (pure)."""
import base64
import itertools
import re

from .common import hx, unhx, rbytes, load_corpus

ID = "C18"
ENGINE = "b64"
VARIANT = "std"
STATEFUL = False
LEVEL = "proof"
FILES = ["crypto.c"]
TRUSTED = ["model Strophe/Model/Base64.lean tied to src/crypto.c by differential execution (engine b64)",
           "Spec/Rfc4648.lean (independent strict RFC 4648 codec) cross-checked at run time against Python's base64 module"]
ASSUMPTIONS = ["allocation failure paths are not modelled",
               "uninitialised output is made observable by decoding twice under allocator fill patterns 0xA5/0x5A"]
RULE = ("exhaustive strings over the alphabet {A,Q,/,=,-,NUL,0xFF} up to length 6 (quick) / 8 (thorough) for "
        "decode_bin and decode_str, plus random byte strings (encode) and valid encodings with mutations; "
        "distinct = tag (op, length mod 4, padding shape, result kind)")

ALPHA7 = [0x41, 0x51, 0x2F, 0x3D, 0x2D, 0x00, 0xFF]
B64CH = b"ABCDEFGHIJKLMNOPQRSTUVWXYZabcdefghijklmnopqrstuvwxyz0123456789+/"


def corpus():
    return load_corpus(ID)


def generate(rng, tier, override=0):
    ops = []
    maxlen = 6 if tier == "quick" else 8
    if override:
        maxlen = 4
    for n in range(0, maxlen + 1):
        for t in itertools.product(ALPHA7, repeat=n):
            s = bytes(t)
            ops.append("decbin " + hx(s))
            if n <= maxlen - 1:
                ops.append("decstr " + hx(s))
    nrand = override or (4000 if tier == "quick" else 60000)
    for i in range(nrand):
        ln = rng.choice([0, 1, 2, 3, 4, 5, 6, 7, 8, 9, 30, 31, 32, 100, rng.randrange(0, 600), rng.randrange(0, 4096)])
        if rng.random() < 0.3:
            raw = rbytes(rng, ln, list(b"abc xyz,=1"))  # NUL-free: exercises decode_str success
        else:
            raw = rbytes(rng, ln)
        ops.append("enc " + hx(raw))
        e = bytearray(base64.b64encode(raw))
        k = rng.random()
        if k < 0.35:
            pass
        elif k < 0.6 and e:
            # mutate one or two characters
            for _ in range(rng.choice([1, 1, 2])):
                j = rng.randrange(len(e))
                e[j] = rng.choice(list(b"=-_ \n") + [0, 0xFF, 0x80] + list(B64CH[:8]))
        elif k < 0.75 and e:
            j = rng.randrange(len(e) + 1)
            e[j:j] = bytes([rng.choice(list(b"=A") + [0])]) * rng.choice([1, 2, 3, 4])
        elif k < 0.9 and e:
            del e[rng.randrange(len(e)):][:rng.choice([1, 2, 3])]
            e = e[: max(0, len(e) - rng.choice([0, 1, 2, 3]))]
        elif k < 0.95 or not e:
            # padding moved into the middle, non-canonical trailing bits
            q = rng.randrange(1, 5)
            e = bytearray(rng.choice([b"AA==", b"AAA=", b"A===", b"====", b"AB==", b"AAB="])) * q + e
        else:
            # whole valid quartets followed by a long run of '=': the output buffer is sized from the
            # trailing run before the quartets in front of it are decoded
            e = e[: 4 * rng.randrange(1, 1 + max(1, min(len(e) // 4, 6)))] + b"=" * rng.choice(
                [3, 4, 5, 6, 7, 8, 9, 10, 11, 12, 16, 24, 40])
        ops.append("decbin " + hx(bytes(e)))
        ops.append("decstr " + hx(bytes(e)))
    return [ops[i:i + 20000] for i in range(0, len(ops), 20000)]


def strict_decode(s):
    """RFC 4648 strict decoding (reference independent of both the C code and the Lean files)."""
    if len(s) == 0 or len(s) % 4:
        return None
    body, last = s[:-4], s[-4:]
    if any(c not in B64CH for c in body):
        return None
    if last[3:4] == b"=":
        core = last[:2] if last[2:3] == b"=" else last[:3]
    else:
        core = last
    if any(c not in B64CH for c in core):
        return None
    try:
        return base64.b64decode(bytes(s), validate=False)
    except Exception:  # noqa: BLE001
        return None


def py_oracle(ops, outs):
    fails = []
    for i, (op, out) in enumerate(zip(ops, outs)):
        kind, h = op.split(" ")
        data = unhx(h)
        if kind == "enc":
            want = "= ok " + hx(base64.b64encode(data))
        elif kind == "decbin":
            v = strict_decode(data)
            want = "= null" if v is None else "= ok %s %d" % (hx(v), len(v))
        else:
            if len(data) == 0:
                want = "= ok ."
            else:
                v = strict_decode(data)
                want = "= null" if (v is None or b"\0" in v) else "= ok " + hx(v)
        if out != want:
            fails.append((i, "b64-mismatch %s: got %s want %s" % (op[:60], out[:80], want[:80])))
    return fails


def shape(data):
    if data is None:
        return "-"
    n = len(data)
    pads = len(data) - len(data.rstrip(b"="))
    inner = b"=" in data.rstrip(b"=")
    foreign = any((c not in B64CH and c != 0x3D) for c in data)
    return "m%d:p%d:%s%s" % (n % 4, min(pads, 3), "i" if inner else "", "f" if foreign else "")


def signature(case, i, what):
    op = case.ops[i] if i < len(case.ops) else "?"
    kind, h = (op.split(" ") + ["."])[:2]
    w = what.split(" ")[0]
    if w == "ORACLE-FAIL":
        w = what.split(" ")[1]
    try:
        return "%s:%s:%s:%s" % (ID, kind, shape(unhx(h)), w)
    except ValueError:
        return "%s:%s:%s" % (ID, kind, w)


def tags(case, outs):
    res = []
    for op, out in zip(case.ops, outs):
        kind, h = op.split(" ")
        data = unhx(h)
        if kind == "enc":
            res.append("enc:%d:%s" % (len(data) % 3, "big" if len(data) > 1024 else "small"))
        else:
            res.append("%s:%s:%s" % (kind, shape(data), "null" if out == "= null" else "ok"))
    return res
