"""companion pass of C12: allocator balance of whole connection histories on engine `conn` -- the
sessions of C01's generator (configure, connect, negotiate to any stage, fail, disconnect, reconnect,
release; stream-management histories; compression offers), with the harness's per-case leak check
(`ORACLE-FAIL leak n`: blocks of the instrumented xmpp_mem_t still live after the connection was
released) NOT ignored.  Everything else (generator, model-free oracle, tags, model input) is C01's."""
import os

from . import conn_gen, c01

ID = "C12"
ENGINE = "conn"
VARIANT = "std"
STATEFUL = True
LEVEL = "proof"
FILES = c01.FILES
TRUSTED = c01.TRUSTED + ["instrumented allocator of harness/hcommon.c (live-block count per case; expat is routed "
                         "through it by parser_expat.c)"]
ASSUMPTIONS = c01.ASSUMPTIONS
RULE = c01.RULE + "; every session ends with the release of the connection and must leave zero live blocks"
lean_input = conn_gen.lean_input
IGNORE_ORACLE = []          # the leak oracle is this pass's subject
PAT = c01.PAT

KINDS = ("mixed", "sm", "compress")      # profiles of conn_gen.gen_session ("policy" = C02's flag sweep)


def corpus():
    """corpus/C12/conn_*.ops only: the other files of corpus/C12 belong to the stanza engine"""
    import glob
    here = os.path.dirname(os.path.dirname(os.path.dirname(os.path.abspath(__file__))))
    res = []
    # same file format and order as common.load_corpus(ID), restricted to conn_*.ops
    for f in sorted(glob.glob(os.path.join(here, "corpus", ID, "conn_*.ops"))):
        with open(f) as fh:
            ops = [l.strip() for l in fh if l.strip() and not l.startswith("#")]
        if ops:
            res.append(ops)
    return res


def generate(rng, tier, override=0):
    n = override or 300
    # a companion's corpus() is not called by check.py: the minimised past failures go first here
    out = corpus()
    for i in range(n):
        kind = "sm" if i % 4 == 3 else ("compress" if i % 8 == 5 else "mixed")
        out.append(conn_gen.gen_session(rng, tier, kind))
    return out


py_oracle = c01.py_oracle


def signature(case, i, what):
    return c01.signature(case, i, what).replace("C01", ID, 1)


tags = c01.tags
