"""C15 — DNS SRV decoding.  Engine `dns` (pure, real resolver.c)."""
import os
import struct

from .common import hx, unhx, rbytes, load_corpus

ID = "C15"
ENGINE = "dns"
VARIANT = "std"
STATEFUL = False
LEVEL = "proof"
FILES = ["resolver.c"]
TRUSTED = ["model Strophe/Model/Resolver.lean tied to src/resolver.c by differential execution (engine dns)",
           "Spec/Dns.lean (relational RFC 1035 well-formedness) — cross-checked at run time by an independent "
           "Python encoder: encoder-built responses must decode to the records that were encoded"]
ASSUMPTIONS = ["HAVE_CARES undefined (as built here)", "allocation failures not modelled"]
RULE = ("the four captured packets of tests/test_resolver.c, every truncation of them, encoder-built valid "
        "responses (record mixes, label lengths 1..63, compression choices, names to 255 bytes), and mutations "
        "(forged counts/lengths/pointers, reserved label bits); distinct = tag (origin class, result, #records class)")

PKT1 = bytes.fromhex(
    "95f381800001000100000000" "0c5f786d70702d636c69656e74045f746370066a6162626572046b696576027561000021"
    "0001c00c002100010000003b00160001000014660 6 6a6162626572046b69657602756100".replace(" ", ""))


def enc_name(labels, table, pos, rng, compress=True):
    """Encode labels (list of bytes) at offset pos; table maps tuple(labels-suffix) -> offset."""
    out = b""
    for i in range(len(labels)):
        suffix = tuple(labels[i:])
        if compress and suffix in table and table[suffix] < 0x4000 and rng.random() < 0.7:
            return out + struct.pack(">H", 0xC000 | table[suffix])
        if pos + len(out) < 0x4000:
            table.setdefault(suffix, pos + len(out))
        out += bytes([len(labels[i])]) + labels[i]
    return out + b"\0"


def rlabel(rng):
    n = rng.choice([1, 1, 2, 3, 5, 8, 20, 62, 63])
    alpha = b"abcdefghijklmnopqrstuvwxyz0123456789-_"
    if rng.random() < 0.05:
        return rbytes(rng, n, list(range(1, 256)))   # arbitrary non-NUL bytes
    return rbytes(rng, n, list(alpha))


def rname(rng, pool):
    if pool and rng.random() < 0.6:
        base = list(rng.choice(pool))
        k = rng.randrange(0, len(base) + 1)
        labels = [rlabel(rng) for _ in range(rng.randrange(0, 3))] + base[k:]
    else:
        labels = [rlabel(rng) for _ in range(rng.choice([1, 2, 3, 4, 6]))]
    # keep expanded length (labels joined by '.') + 1 <= 255
    while labels and sum(len(l) + 1 for l in labels) > 255:
        labels.pop(0)
    if not labels:
        labels = [b"a"]
    return labels


def build_response(rng, big=False):
    table = {}
    pool = []
    qname = [b"_xmpp-client", b"_tcp"] + rname(rng, pool)[:3]
    pool.append(qname)
    nq = rng.choice([1, 1, 1, 0, 2])
    nrec = rng.choice([0, 1, 1, 2, 3, 5, 8]) if not big else rng.randrange(20, 400)
    msg = bytearray(struct.pack(">HBBHHHH", rng.randrange(65536), 0x81, 0x80, nq, 0, 0, 0))
    for _ in range(nq):
        msg += enc_name(qname, table, len(msg), rng, compress=rng.random() < 0.5)
        msg += struct.pack(">HH", 33, 1)
    recs = []
    n_an = 0
    for _ in range(nrec):
        owner = qname if rng.random() < 0.8 else rname(rng, pool)
        msg += enc_name(owner, table, len(msg), rng)
        kind = rng.choice(["srv"] * 6 + ["a", "cname", "srv-ch", "txt"])
        ttl = rng.randrange(1 << 31)
        if kind in ("srv", "srv-ch"):
            prio, weight, port = rng.choice([0, 1, 5, 10, 10, 65535]), rng.choice([0, 0, 5, 5, 100, 65535]), rng.randrange(65536)
            target = rname(rng, pool)
            pool.append(target)
            rd_pos = len(msg) + 10
            tn = enc_name(target, table, rd_pos + 6, rng, compress=rng.random() < 0.6)
            rdata = struct.pack(">HHH", prio, weight, port) + tn
            cls = 1 if kind == "srv" else 3
            msg += struct.pack(">HHIH", 33, cls, ttl, len(rdata)) + rdata
            if cls == 1:
                recs.append((prio, weight, port, b".".join(target)))
        elif kind == "a":
            msg += struct.pack(">HHIH", 1, 1, ttl, 4) + rbytes(rng, 4)
        elif kind == "cname":
            tn = enc_name(rname(rng, pool), table, len(msg) + 10, rng)
            msg += struct.pack(">HHIH", 5, 1, ttl, len(tn)) + tn
        else:
            t = rbytes(rng, rng.randrange(0, 40))
            rdata = bytes([len(t)]) + t
            msg += struct.pack(">HHIH", 16, 1, ttl, len(rdata)) + rdata
        n_an += 1
    struct.pack_into(">H", msg, 6, n_an)
    if rng.random() < 0.3:
        msg += rbytes(rng, rng.randrange(1, 30))   # authority/additional bytes the decoder never reads
    return bytes(msg), recs


def long_target_response(rng):
    """an SRV answer whose target expands to about 256 bytes: plain labels (and sometimes a
    compression pointer into another long name) that cross the size of the fixed target field
    inside a label, exactly at a label boundary, or one byte either side"""
    msg = bytearray(struct.pack(">HBBHHHH", rng.randrange(65536), 0x81, 0x80, 1, 1, 0, 0))
    q = b"\x0c_xmpp-client\x04_tcp\x02ex\x00"
    msg += q + struct.pack(">HH", 33, 1)
    total = rng.choice([200, 240, 250, 253, 254, 255, 256, 257, 258, 270, 300, 330, 400])
    labels = []
    n = 0
    while n < total:
        l = min(rng.choice([1, 2, 7, 20, 50, 50, 63]), 63, max(1, total - n - 1))
        labels.append(bytes(rng.choice(b"abcdefghijklmnopqrstuvwxyz0123456789-") for _ in range(l)))
        n += l + 1
    name = b"".join(bytes([len(x)]) + x for x in labels)
    if rng.random() < 0.3:
        name += b"\xc0\x0c"            # continue with the question name through a pointer
    else:
        name += b"\x00"
    rdata = struct.pack(">HHH", rng.randrange(3), rng.randrange(3), 5222) + name
    msg += b"\xc0\x0c" + struct.pack(">HHIH", 33, 1, 60, len(rdata)) + rdata
    return bytes(msg)


def expected(recs):
    lst = list(reversed(recs))
    lst.sort(key=lambda r: (r[0], -r[1]))   # stable
    return lst


def fmt(recs):
    if not recs:
        return "= notfound"
    return "= found " + ",".join("%d:%d:%d:%s" % (p, w, port, hx(t.split(b"\0")[0])) for p, w, port, t in recs)


def mutate(rng, pkt):
    b = bytearray(pkt)
    k = rng.random()
    if k < 0.25:
        return bytes(b[:rng.randrange(0, len(b) + 1)])
    if k < 0.45:
        # forge header counts
        struct.pack_into(">H", b, rng.choice([4, 6]), rng.choice([0, 1, 2, 255, 65535, rng.randrange(65536)]))
        return bytes(b)
    if k < 0.7:
        for _ in range(rng.choice([1, 1, 2, 4])):
            j = rng.randrange(len(b))
            b[j] = rng.choice([0, 0x3f, 0x40, 0x80, 0xc0, 0xff, rng.randrange(256), (b[j] + 1) & 255])
        return bytes(b)
    if k < 0.85:
        # pointer edits: find 0xC0 bytes and redirect
        idx = [i for i in range(12, len(b) - 1) if b[i] & 0xC0 == 0xC0]
        if idx:
            i = rng.choice(idx)
            tgt = rng.choice([i, i + 1, i - 1, 0, 11, 12, len(b) - 1, len(b), rng.randrange(0, 0x4000)])
            tgt = max(0, tgt) & 0x3FFF
            b[i] = 0xC0 | (tgt >> 8)
            b[i + 1] = tgt & 255
        return bytes(b)
    # splice random garbage / duplicate a slice
    j = rng.randrange(len(b))
    return bytes(b[:j] + rbytes(rng, rng.randrange(1, 20)) + b[j + rng.randrange(0, 4):])


def test_packets():
    """the captured packets of /repo/tests/test_resolver.c (parsed from the source on every run)"""
    import os
    import re
    path = os.path.join(os.environ.get("VERIF_REPO", "/repo"), "tests", "test_resolver.c")
    res = []
    try:
        with open(path) as f:
            text = f.read()
    except OSError:
        return res
    text = re.sub(r"//[^\n]*", "", text)
    for m in re.finditer(r"static const unsigned char data\d+\[\]\s*=\s*\{(.*?)\};", text, re.S):
        res.append(bytes(int(x, 16) for x in re.findall(r"0x([0-9a-fA-F]{2})", m.group(1))))
    return res


_EXPECT = {}


def corpus():
    return load_corpus(ID)


def generate(rng, tier, override=0):
    ops = []
    _EXPECT.clear()
    pk = test_packets()
    for p in pk:
        ops.append("lookup " + hx(p))
        step = 1 if tier == "thorough" or len(p) < 200 else 3
        for n in range(0, len(p), step):
            ops.append("lookup " + hx(p[:n]))
    nvalid = override or (3000 if tier == "quick" else 60000)
    for i in range(nvalid):
        pkt, recs = build_response(rng, big=(rng.random() < 0.01))
        op = "lookup " + hx(pkt)
        _EXPECT[op] = fmt(expected(recs))
        ops.append(op)
        for _ in range(rng.choice([0, 1, 2, 4])):
            ops.append("lookup " + hx(mutate(rng, pkt)))
    for _ in range(override or (400 if tier == "quick" else 6000)):
        ops.append("lookup " + hx(long_target_response(rng)))
    for p in pk:
        for _ in range(override or (300 if tier == "quick" else 5000)):
            ops.append("lookup " + hx(mutate(rng, p)))
    if tier == "thorough":
        for _ in range(20):
            ops.append("lookup " + hx(rbytes(rng, 65536)))
            pkt, recs = build_response(rng, big=True)
            ops.append("lookup " + hx((pkt + bytes(65536))[:65536]))
    ops.append("lookup .")
    return [ops[i:i + 2000] for i in range(0, len(ops), 2000)]


def py_oracle(ops, outs):
    fails = []
    for i, (op, out) in enumerate(zip(ops, outs)):
        want = _EXPECT.get(op)
        if want is not None and out != want:
            fails.append((i, "wellformed-mismatch: got %s want %s" % (out[:120], want[:120])))
        if out.startswith("= found"):
            for r in out[len("= found "):].split(","):
                f = r.split(":")
                t = unhx(f[3]) if len(f) == 4 else None
                if t is None or len(t) >= 256 or b"\0" in t:
                    fails.append((i, "bad-target %s" % r[:60]))
            if out.strip() == "= found":
                fails.append((i, "found-empty"))
    return fails


def signature(case, i, what):
    w = what.split(" ")
    return "%s:%s" % (ID, w[1] if w[0] == "ORACLE-FAIL" and len(w) > 1 else w[0])


def tags(case, outs):
    res = []
    for op, out in zip(case.ops, outs):
        n = 0 if out == "= notfound" else out.count(",") + 1
        origin = "valid" if op in _EXPECT else "other"
        ln = (len(op) - 7) // 2
        res.append("%s:%s:n%s:l%s" % (origin, "found" if n else "notfound", min(n, 4),
                                       "0" if ln == 0 else ("hdr" if ln < 12 else ("s" if ln < 100 else ("m" if ln < 1000 else "L")))))
    return res
