#!/bin/sh
# usage: mkworktree.sh <dir>   -- scratch git worktree of /repo's HEAD that can build and run `make check`
# (configure products are not tracked, so they are copied; objects are left out and rebuilt)
set -e
d="$1"
git -C /repo worktree add -q --detach "$d" HEAD
rsync -a --exclude .git --exclude '*.o' --exclude '*.lo' --exclude '*.la' --exclude '.libs' \
      --exclude 'tests/*.log' --exclude 'tests/*.trs' /repo/ "$d"/
# the binaries of the test programs are build products too
( cd "$d" && git status --porcelain --ignored | awk '$1=="!!"{print $2}' | while read f; do
    case "$f" in tests/test_*|examples/*) [ -f "$f" ] && [ -x "$f" ] && rm -f "$f";; esac; done ) || true
echo "$d ready"
