#!/usr/bin/env python3
"""Pretty-print a replay file of engine conn (decodes rx payloads)."""
import json
import sys
d = json.load(open(sys.argv[1]))
print(d.get("kind"), d.get("signature"), "\n ", d.get("detail", "")[:900])
n = int(sys.argv[2]) if len(sys.argv) > 2 else 14
for o in d.get("ops", [])[-n:]:
    t = o.split(" ")
    if t[0] in ("rx", "uraw", "urawstr") and len(t) > 1 and t[1] not in (".", "-"):
        print(t[0], bytes.fromhex(t[1]).decode("latin1")[:500])
    elif t[0] == "new":
        print("new jid=%s pass=%s flags=%s type=%s cert=%s" % (
            bytes.fromhex(t[1]).decode() if t[1] not in ".-" else t[1],
            bytes.fromhex(t[2]).decode() if t[2] not in ".-" else t[2], t[3], t[4], t[5]))
    else:
        print(o)
