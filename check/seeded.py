#!/usr/bin/env python3
"""Seeded-change campaign (DESIGN §7): realistic property-breaking changes written by fresh
sub-agents that saw only the property text and a scratch worktree.

  seeded.py import  Cnn            copy /tmp/mutout_Cnn/m*/ into /verif/seeded/Cnn-m<k>/
  seeded.py confirm Cnn-mk ...     apply in the scratch worktree /tmp/mut_Cnn: suite still 18/18,
                                   the demonstration behaves differently on mutated / pristine tree
  seeded.py run [ids] [--tier T] [--all-checks]
                                   apply to /repo, run the property's check (quick, then thorough
                                   when quick misses it, then every other claimed check), undo
  seeded.py table                  markdown table of the results

Nothing here is ever committed in /repo; the working tree is restored after every run."""
import glob
import json
import os
import re
import shutil
import subprocess
import sys
import time

HERE = os.path.dirname(os.path.abspath(__file__))
VERIF = os.path.dirname(HERE)
SEEDED = os.path.join(VERIF, "seeded")
REPO = "/repo"


def sh(cmd, cwd=None, timeout=None, env=None):
    try:
        p = subprocess.run(cmd, shell=isinstance(cmd, str), cwd=cwd, capture_output=True, text=True,
                           timeout=timeout, env=env, errors="replace")
        return p.returncode, p.stdout + p.stderr
    except subprocess.TimeoutExpired as e:
        return 124, "TIMEOUT " + ((e.stdout or b"").decode(errors="replace") if isinstance(e.stdout, bytes) else (e.stdout or ""))


def all_ids():
    return sorted(os.path.basename(d) for d in glob.glob(os.path.join(SEEDED, "C*-m*")))


def cmd_import(pid):
    src = "/tmp/mutout_%s" % pid
    for d in sorted(glob.glob(os.path.join(src, "m*"))):
        if not os.path.isfile(os.path.join(d, "patch.diff")):
            continue
        k = os.path.basename(d)
        dst = os.path.join(SEEDED, "%s-%s" % (pid, k))
        os.makedirs(dst, exist_ok=True)
        for f in os.listdir(d):
            p = os.path.join(d, f)
            if os.path.isfile(p) and os.path.getsize(p) < 400000 and not os.access(p, os.X_OK) or f == "run.sh":
                if f.endswith((".log", ".o")) or f in ("demo", "a.out"):
                    continue
                shutil.copy(p, os.path.join(dst, f))
        print("imported", dst)


def suite(wt):
    rc, out = sh("make -j16 check 2>&1 | grep -E '^# (PASS|FAIL|ERROR)'", cwd=wt, timeout=900)
    m = dict(re.findall(r"# (PASS|FAIL|ERROR):\s+(\d+)", out))
    return m.get("PASS") == "18" and m.get("FAIL") == "0" and m.get("ERROR") == "0", out.replace("\n", " ")


def cmd_confirm(mid):
    pid, k = mid.split("-")
    wt = "/tmp/mut_%s" % pid
    src = "/tmp/mutout_%s/%s" % (pid, k)
    d = os.path.join(SEEDED, mid)
    res = {}
    sh("git checkout -- .", cwd=wt)
    rc, out = sh(["git", "apply", os.path.join(d, "patch.diff")], cwd=wt)
    res["applies"] = rc == 0
    if rc != 0:
        res["apply_error"] = out[-400:]
    else:
        ok, txt = suite(wt)
        res["suite_18_of_18"] = ok
        res["suite"] = txt
        rc1, o1 = sh("bash run.sh", cwd=src, timeout=900) if os.path.isfile(os.path.join(src, "run.sh")) else (None, "")
        sh("git checkout -- .", cwd=wt)
        sh("make -j16 >/dev/null 2>&1", cwd=wt, timeout=900)
        rc2, o2 = sh("bash run.sh", cwd=src, timeout=900) if rc1 is not None else (None, "")
        strip = lambda s: re.sub(r"0x[0-9a-f]+|==\d+==|\d+\.\d+ ?m?s|pid \d+", "", s)
        res["demo"] = {"mutated_exit": rc1, "pristine_exit": rc2,
                       "differs": rc1 is not None and (rc1 != rc2 or strip(o1) != strip(o2)),
                       "mutated_tail": o1[-600:], "pristine_tail": o2[-300:]}
    sh("git checkout -- .", cwd=wt)
    with open(os.path.join(d, "confirm.json"), "w") as f:
        json.dump(res, f, indent=1)
    print(mid, "applies", res.get("applies"), "suite", res.get("suite_18_of_18"),
          "demo differs", res.get("demo", {}).get("differs"))


def claimed():
    man = json.load(open(os.path.join(VERIF, "MANIFEST.json")))
    return [c["property_id"] for c in man["checks"]]


def run_check(pid, tier, seed="1"):
    env = dict(os.environ, VERIF_SEED=seed, VERIF_TIER=tier)
    t0 = time.time()
    rc, out = sh(["python3", os.path.join(HERE, "check.py"), pid, "--tier", tier], cwd=VERIF, timeout=7200, env=env)
    viol = [l for l in out.split("\n") if l.startswith("VIOLATION")]
    rep = None
    if viol:
        m = re.search(r"replay=(\S+)", viol[0])
        if m and os.path.isfile(m.group(1)):
            try:
                r = json.load(open(m.group(1)))
                rep = {"kind": r.get("kind"), "signature": r.get("signature"), "detail": str(r.get("detail"))[:200],
                       "ops": len(r.get("ops", []))}
            except Exception:
                rep = None
    return {"exit": rc, "violations": viol[:4], "first_replay": rep, "seconds": round(time.time() - t0, 1),
            "summary": out.strip().split("\n")[-1][:300]}


def cmd_run(ids, tier, all_checks, extra):
    rc, out = sh("git status --porcelain --untracked-files=no", cwd=REPO)
    if out.strip():
        print("refusing: /repo working tree is not clean:\n" + out)
        return 1
    cl = claimed()
    for mid in ids:
        pid = mid.split("-")[0]
        d = os.path.join(SEEDED, mid)
        rc, out = sh(["git", "apply", os.path.join(d, "patch.diff")], cwd=REPO)
        if rc != 0:
            # /repo has moved on since the change was written (later fix: commits): same hunk, shifted context
            rc, out2 = sh("patch -p1 --fuzz=3 --no-backup-if-mismatch -r - < %s" % os.path.join(d, "patch.diff"), cwd=REPO)
            if rc != 0:
                sh("git checkout -- .", cwd=REPO)
                print(mid, "does not apply to /repo:", out[-200:])
                continue
        res = {"checks": {}}
        try:
            targets = [pid] + [x for x in extra if x != pid]
            for p in targets:
                r = run_check(p, "quick")
                res["checks"][p + ":quick"] = r
                if p == pid and r["exit"] == 0 and tier == "thorough":
                    res["checks"][p + ":thorough"] = run_check(p, "thorough")
            caught_own = any(v["exit"] != 0 for k, v in res["checks"].items() if k.startswith(pid + ":"))
            if all_checks or not caught_own:
                for p in cl:
                    if p + ":quick" not in res["checks"]:
                        res["checks"][p + ":quick"] = run_check(p, "quick")
        finally:
            sh("git checkout -- .", cwd=REPO)
        res["caught_by"] = sorted(k for k, v in res["checks"].items() if v["exit"] != 0)
        with open(os.path.join(d, "result.json"), "w") as f:
            json.dump(res, f, indent=1)
        print(mid, "caught by", res["caught_by"] or "NOTHING")
    rc, out = sh("git status --porcelain --untracked-files=no", cwd=REPO)
    assert not out.strip(), out
    return 0


def cmd_table():
    print("| seeded change | file: function | own check | what reported it | also caught by |")
    print("|---|---|---|---|---|")
    for mid in all_ids():
        d = os.path.join(SEEDED, mid)
        meta = {}
        try:
            meta = json.load(open(os.path.join(d, "meta.json")))
        except Exception:
            pass
        try:
            r = json.load(open(os.path.join(d, "result.json")))
        except Exception:
            r = None
        pid = mid.split("-")[0]
        where = "%s: %s" % (",".join(meta.get("files", []))[:40], ",".join(map(str, meta.get("functions", [])))[:50])
        if r is None:
            print("| %s | %s | not run | | |" % (mid, where))
            continue
        own = [k for k in r["caught_by"] if k.startswith(pid + ":")]
        first = None
        for k in own:
            first = r["checks"][k].get("first_replay") or {"kind": "proof/tie", "detail": r["checks"][k]["violations"][0][-60:] if r["checks"][k]["violations"] else ""}
            break
        what = "" if not first else "%s %s" % (first.get("kind"), (first.get("signature") or first.get("detail") or "")[:70])
        other = [k for k in r["caught_by"] if not k.startswith(pid + ":")]
        print("| %s | %s | %s | %s | %s |" % (mid, where, ",".join(k.split(":")[1] for k in own) or "MISSED", what,
                                           ",".join(other)))


def main():
    a = sys.argv[1:]
    if not a:
        print(__doc__)
        return 0
    if a[0] == "import":
        for p in a[1:]:
            cmd_import(p)
    elif a[0] == "confirm":
        for m in (a[1:] or all_ids()):
            cmd_confirm(m)
    elif a[0] == "run":
        tier = "thorough" if "--thorough" in a else "quick"
        allc = "--all-checks" in a
        extra = []
        for x in a[1:]:
            if x.startswith("--also="):
                extra = x[7:].split(",")
        ids = [x for x in a[1:] if not x.startswith("--")] or all_ids()
        return cmd_run(ids, tier, allc, extra)
    elif a[0] == "table":
        cmd_table()
    return 0


if __name__ == "__main__":
    sys.exit(main())
