#!/usr/bin/env python3
"""check.py Cnn [--tier quick|thorough] [--replay FILE]

Verdict logic of DESIGN.md §3.3:
  1. regenerate Gen/ from /repo, `lake build Strophe.Props.Cnn drv`, audit (forbidden tokens,
     `#print axioms`), thorough: leanchecker.
  2. build the harness from /repo's working tree; run corpus + generated cases through the real
     code (hdrv) and the Lean model (drv); diff; evaluate the model-free oracles.
  3. VIOLATION / KNOWN-FINDING / exit code; evidence/Cnn.json.
"""
import argparse
import fcntl
import importlib
import json
import os
import random
import re
import subprocess
import sys
import time

HERE = os.path.dirname(os.path.abspath(__file__))
VERIF = os.path.dirname(HERE)
sys.path.insert(0, HERE)
import build  # noqa: E402

LEAN = build.LEAN
ALLOWED_AXIOMS = {"propext", "Classical.choice", "Quot.sound"}
FORBIDDEN = re.compile(r"\b(sorry|admit|native_decide|bv_decide|implemented_by)\b|^\s*axiom\s|"
                       r"\bunsafe\s|maxHeartbeats\s+0\b", re.M)


# ---------------------------------------------------------------------------------------------
# Lean side

def strip_lean_comments(text):
    out = []
    i = 0
    depth = 0
    n = len(text)
    while i < n:
        if text.startswith("/-", i):
            depth += 1
            i += 2
        elif depth and text.startswith("-/", i):
            depth -= 1
            i += 2
        elif depth:
            if text[i] == "\n":
                out.append("\n")
            i += 1
        elif text.startswith("--", i):
            while i < n and text[i] != "\n":
                i += 1
        else:
            out.append(text[i])
            i += 1
    return "".join(out)


def lean_files(roots=None):
    """The Lean files a check depends on: the import closure (inside this project) of the given
    module names; all files when roots is None."""
    if roots is None:
        res = [os.path.join(LEAN, "Driver.lean")]
        for root, _, files in os.walk(os.path.join(LEAN, "Strophe")):
            for f in files:
                if f.endswith(".lean"):
                    res.append(os.path.join(root, f))
        return sorted(res)
    seen = {}
    todo = list(roots)
    while todo:
        mod = todo.pop()
        if mod in seen:
            continue
        path = os.path.join(LEAN, *mod.split(".")) + ".lean"
        if not os.path.exists(path):
            continue
        seen[mod] = path
        with open(path, encoding="utf-8") as fh:
            for m in re.finditer(r"^import\s+(Strophe\.[\w.]+)", fh.read(), re.M):
                todo.append(m.group(1))
    return sorted(seen.values())


def audit_tokens(roots=None):
    hits = []
    for f in lean_files(roots):
        with open(f, encoding="utf-8") as fh:
            text = strip_lean_comments(fh.read())
        # string literals may legitimately contain words; drop them
        text = re.sub(r'"(?:\\.|[^"\\])*"', '""', text)
        for m in FORBIDDEN.finditer(text):
            line = text.count("\n", 0, m.start()) + 1
            hits.append("%s:%d: %s" % (os.path.relpath(f, VERIF), line, m.group(0).strip()))
    return hits


def props_decls(pid):
    """(theorem names, number of examples) declared in Props/Cnn.lean."""
    path = os.path.join(LEAN, "Strophe", "Props", pid + ".lean")
    try:
        with open(path, encoding="utf-8") as fh:
            text = strip_lean_comments(fh.read())
    except OSError:
        return [], 0
    ns = re.search(r"^namespace\s+(\S+)", text, re.M)
    ns = ns.group(1) if ns else ""
    thms = []
    for m in re.finditer(r"^(private\s+)?(theorem|lemma)\s+(\S+)", text, re.M):
        if m.group(1):
            continue
        thms.append((ns + "." if ns else "") + m.group(3))
    examples = len(re.findall(r"^example\b", text, re.M))
    return thms, examples


def print_axioms(pid, thms):
    """Run `#print axioms` on every property theorem. Returns (dict name->list, raw log)."""
    os.makedirs(os.path.join(LEAN, ".lake"), exist_ok=True)
    path = os.path.join(LEAN, ".lake", "audit_%s.lean" % pid)
    with open(path, "w") as f:
        f.write("import Strophe.Props.%s\n" % pid)
        for t in thms:
            f.write("#print axioms %s\n" % t)
    p = subprocess.run(["lake", "env", "lean", path], cwd=LEAN, capture_output=True, text=True)
    out = p.stdout + p.stderr
    res = {}
    for m in re.finditer(r"'([^']+)' depends on axioms: \[([^\]]*)\]", out, re.S):
        res[m.group(1)] = [a.strip() for a in m.group(2).replace("\n", " ").split(",") if a.strip()]
    for m in re.finditer(r"'([^']+)' does not depend on any axioms", out):
        res[m.group(1)] = []
    return res, out, p.returncode


def failing_theorems(pid, log):
    """Map `error: file:line:` messages of a failed build to enclosing declarations."""
    names = []
    for m in re.finditer(r"error: (\S+?\.lean):(\d+):\d+", log):
        f, line = m.group(1), int(m.group(2))
        path = f if os.path.isabs(f) else os.path.join(LEAN, f)
        try:
            with open(path, encoding="utf-8") as fh:
                lines = fh.read().split("\n")
        except OSError:
            continue
        name = None
        for i in range(min(line, len(lines)) - 1, -1, -1):
            mm = re.match(r"\s*(?:private\s+)?(theorem|lemma|example|def|instance)\s*(\S*)", lines[i])
            if mm:
                name = "%s %s (%s:%d)" % (mm.group(1), mm.group(2), os.path.relpath(path, LEAN), line)
                break
        names.append(name or "%s:%d" % (f, line))
    seen = []
    for n in names:
        if n not in seen:
            seen.append(n)
    return seen


# ---------------------------------------------------------------------------------------------
# running the two drivers

def run_proc(cmd, data, timeout, linebuf=False):
    env = dict(os.environ)
    if linebuf:
        env["HDRV_LINEBUF"] = "1"
    env["ASAN_OPTIONS"] = "detect_leaks=0:abort_on_error=0:handle_abort=1:allocator_may_return_null=1"
    env["UBSAN_OPTIONS"] = "print_stacktrace=1"
    try:
        p = subprocess.run(cmd, input=data, capture_output=True, text=True, timeout=timeout, env=env)
        return p.returncode, p.stdout, p.stderr
    except subprocess.TimeoutExpired as e:
        out = e.stdout or ""
        if isinstance(out, bytes):
            out = out.decode("utf-8", "replace")
        return -999, out, "TIMEOUT after %ss" % timeout


def split_outputs(stdout):
    """Group output lines per op: every op ends with a line starting with '= '; other lines
    (ORACLE-FAIL …, #tags …) printed before it belong to it.  Returns (list of (main, extras),
    trailing extras)."""
    res = []
    extras = []
    for line in stdout.split("\n"):
        if not line:
            continue
        if line.startswith("="):
            res.append((line, extras))
            extras = []
        else:
            extras.append(line)
    return res, extras


class Case:
    __slots__ = ("ops", "origin", "nout", "prop", "hdrv")

    def __init__(self, ops, origin="gen", nout=None, prop=None, hdrv=None):
        self.ops = ops
        self.origin = origin
        self.prop = prop        # the property module whose engine / oracles apply to this case
        self.hdrv = hdrv
        # number of `=` lines the case produces (differs from len(ops) only for annotated traces)
        self.nout = len(ops) if nout is None else nout


def flatten(cases, stateful):
    lines = []
    for c in cases:
        if stateful:
            lines.append("case")
        lines.extend(c.ops)
    return "\n".join(lines) + "\n"


def run_side(cmd, cases, stateful, timeout, max_restarts=40):
    """Run all cases through one driver.  Survives crashes of the driver: the crashing case is
    recorded and the run resumes after it.  Returns per-case list of dicts
    {outs: [(main, extras)], crash: None|str, trailing: [...]}"""
    results = [None] * len(cases)
    start = 0
    guard = 0
    n_timeouts = 0
    while start < len(cases):
        guard += 1
        batch = cases[start:]
        rc, out, err = run_proc(cmd, flatten(batch, stateful), timeout)
        outs, trailing = split_outputs(out)
        pos = 0
        done = 0
        crashed = False
        for ci, c in enumerate(batch):
            need = c.nout + (1 if stateful else 0)
            got = outs[pos:pos + need]
            if len(got) < need:
                # the driver died (or timed out) inside this case: run the case alone, line
                # buffered, so that the output up to the crashing op is not lost with the buffer
                rc1, out1, err1 = run_proc(cmd, flatten([c], stateful), min(timeout, 60), linebuf=True)
                outs1, trailing1 = split_outputs(out1)
                if len(outs1) < need and (rc1 != 0):
                    got, trailing, rc, err = outs1, trailing1, rc1, err1
                msg = "rc=%s " % rc + summarize_crash(err)
                if "TIMEOUT" in msg:
                    n_timeouts += 1
                if stateful and got:
                    got = got[1:]
                results[start + ci] = {"outs": got, "crash": msg, "trailing": trailing}
                done = ci + 1
                crashed = True
                break
            if stateful:
                # lines printed before `= case` (end-of-case checks such as the leak check of the
                # previous case) belong to the previous case
                if got and got[0][1] and start + ci > 0 and results[start + ci - 1] is not None:
                    results[start + ci - 1]["trailing"] = list(results[start + ci - 1]["trailing"]) + list(got[0][1])
                got = got[1:]
            results[start + ci] = {"outs": got, "crash": None, "trailing": []}
            pos += need
            done = ci + 1
        if not crashed:
            if rc != 0:
                # died after the last op (e.g. in teardown): attribute to the last case
                results[start + done - 1]["crash"] = "rc=%s at exit " % rc + summarize_crash(err)
            if results[start + done - 1] is not None:
                results[start + done - 1]["trailing"] = trailing
            break
        start += done
        if guard > max_restarts or n_timeouts >= 2:
            # (a driver that hangs again and again: two witnesses are enough, do not wait for more)
            break
    for i, r in enumerate(results):
        if r is None:
            results[i] = {"outs": [], "crash": "not run", "trailing": []}
    return results


def run_side_parallel(cmd, cases, stateful, timeout):
    """run_side over contiguous slices of the cases in parallel driver processes"""
    ncpu = os.cpu_count() or 1
    workers = max(1, min(ncpu, len(cases) // 150))
    if workers <= 1:
        return run_side(cmd, cases, stateful, timeout)
    from concurrent.futures import ThreadPoolExecutor
    step = (len(cases) + workers - 1) // workers
    slices = [cases[i:i + step] for i in range(0, len(cases), step)]
    with ThreadPoolExecutor(max_workers=workers) as ex:
        parts = list(ex.map(lambda sl: run_side(cmd, sl, stateful, timeout), slices))
    out = []
    for p in parts:
        out += p
    return out


def summarize_crash(err):
    m = re.search(r"(ERROR: AddressSanitizer: [^\n]*|runtime error: [^\n]*|TIMEOUT[^\n]*|"
                  r"Assertion [^\n]*failed[^\n]*|SUMMARY: [^\n]*)", err)
    frames = re.findall(r"#\d+ 0x[0-9a-f]+ in (\S+) ([^\n]*)", err)
    where = ""
    for fn, loc in frames:
        if "/repo/src/" in loc:
            where = " in %s %s" % (fn, os.path.basename(loc.split(" ")[0]))
            break
    if m:
        return m.group(1)[:200] + where
    tail = err.strip().split("\n")[-1:] if err.strip() else [""]
    return ("stderr: " + tail[0])[:200]


# ---------------------------------------------------------------------------------------------
# known findings

def load_known(pid):
    path = os.path.join(VERIF, "known_findings.json")
    try:
        with open(path) as f:
            data = json.load(f)
    except OSError:
        return []
    return [e for e in data.get("findings", []) if e.get("property") == pid and e.get("status") == "known"]


def match_known(known, signature):
    for e in known:
        if re.fullmatch(e["signature"], signature):
            return e
    return None


# ---------------------------------------------------------------------------------------------

def shrink_ops(prop, hdrv, ops, failure, timeout):
    """Delta debugging on the op list of a stateful case: keep removing chunks while the
    implementation alone (harness oracles, sanitizers, Python oracle) still fails with the same
    signature."""
    want = failure["signature"]
    hang = "TIMEOUT" in str(failure.get("detail", "")) or "TIMEOUT" in want
    t_end = time.time() + (60 if hang else 240)
    per_run = 8 if hang else min(timeout, 60)      # a single session takes milliseconds

    def bad(cand):
        if time.time() > t_end:
            return False
        c = Case(cand, "shrink")
        res = run_side([hdrv, prop.ENGINE], [c], True, per_run, max_restarts=1)[0]
        return any(f["signature"] == want for f in evaluate_case(prop, c, res, None)
                   if f["kind"] in ("oracle", "crash"))

    cur = list(ops)
    n = 2
    budget = 120
    while len(cur) >= 2 and budget > 0:
        chunk = max(1, len(cur) // n)
        reduced = False
        for i in range(0, len(cur), chunk):
            cand = cur[:i] + cur[i + chunk:]
            budget -= 1
            if cand and bad(cand):
                cur = cand
                n = max(n - 1, 2)
                reduced = True
                break
            if budget <= 0:
                break
        if not reduced:
            if chunk == 1:
                break
            n = min(len(cur), n * 2)
    return cur


def evaluate_case(prop, case, c_res, l_res):
    """Returns list of failures for one case: dicts {kind, op, signature, detail}."""
    fails = []
    c_outs = c_res["outs"]
    l_outs = l_res["outs"] if l_res else None
    # harness-side oracle lines
    ignore = tuple("ORACLE-FAIL " + w for w in getattr(prop, "IGNORE_ORACLE", []))
    for i, (main, extras) in enumerate(c_outs):
        for e in extras:
            if e.startswith("ORACLE-FAIL") and not e.startswith(ignore or ("\0",)):
                fails.append({"kind": "oracle", "op": i, "signature": prop.signature(case, i, e),
                              "detail": e})
    for e in c_res["trailing"]:
        if e.startswith("ORACLE-FAIL") and not e.startswith(ignore or ("\0",)):
            fails.append({"kind": "oracle", "op": len(case.ops) - 1,
                          "signature": prop.signature(case, len(case.ops) - 1, e), "detail": e})
    if c_res["crash"]:
        i = len(c_outs)
        fails.append({"kind": "crash", "op": i,
                      "signature": prop.signature(case, min(i, len(case.ops) - 1), "crash " + c_res["crash"]),
                      "detail": c_res["crash"]})
    # python model-free oracle
    if hasattr(prop, "py_oracle") or hasattr(prop, "py_oracle_ex"):
        fn = getattr(prop, "py_oracle_ex", None)
        res = (fn(case.ops, [m for m, _ in c_outs], [e for _, e in c_outs]) if fn
               else prop.py_oracle(case.ops, [m for m, _ in c_outs]))
        for (i, msg) in res:
            fails.append({"kind": "oracle", "op": i, "signature": prop.signature(case, i, msg),
                          "detail": msg})
    # correspondence
    if l_outs is not None:
        if l_res["crash"]:
            fails.append({"kind": "model-crash", "op": len(l_outs), "signature": "model-crash",
                          "detail": l_res["crash"]})
        for i in range(min(len(c_outs), len(l_outs))):
            if c_outs[i][0] != l_outs[i][0]:
                fails.append({"kind": "diff", "op": i,
                              "signature": prop.signature(case, i, "diff"),
                              "detail": "impl %s | model %s" % (c_outs[i][0][:300], l_outs[i][0][:300])})
                break
    return fails


def main():
    ap = argparse.ArgumentParser()
    ap.add_argument("pid")
    ap.add_argument("--tier", default=os.environ.get("VERIF_TIER", "quick"))
    ap.add_argument("--replay")
    ap.add_argument("--cases", type=int, default=0, help="override number of generated cases")
    args = ap.parse_args()
    pid = args.pid
    tier = args.tier if args.tier in ("quick", "thorough") else "quick"
    seed = int(os.environ.get("VERIF_SEED", "0") or 0)
    t0 = time.time()
    prop = importlib.import_module("props." + pid.lower())
    rng = random.Random((seed << 8) ^ int(pid[1:]))
    evid_path = os.path.join(VERIF, "evidence", pid + ".json")
    os.makedirs(os.path.join(VERIF, "evidence", "replays"), exist_ok=True)
    if not args.replay:
        import glob
        for old in glob.glob(os.path.join(VERIF, "evidence", "replays", "%s-%d-*.json" % (pid, seed))):
            os.remove(old)
    violations = []      # (replay_path, suffix)
    known_printed = []
    notes = []
    known = load_known(pid)

    # ---- step 1: tie (extractor) + proofs -------------------------------------------------
    ext_errs, fingerprints = build.run_extract()
    ok_props, t_lake, log_props = build.lake_build(["Strophe.Props." + pid])
    ok_drv, t_drv, log_drv = build.lake_build(["drv"])
    try:
        hdrv = build.build_harness(prop.ENGINE)
        h_err = None
    except build.BuildError as e:
        hdrv = None
        h_err = e.what + "\n" + e.log
    thms, n_examples = props_decls(pid)
    obligations = len(thms) + n_examples
    discharged = obligations if ok_props else 0
    proof_problems = []
    # an extractor failure concerns this property only if the property (its theorems, its driver)
    # depends on a Gen module the failing generator writes
    if ext_errs:
        # (a companion pass keeps running on the last generated tables; the property that owns that
        #  engine reports the broken translator)
        roots = ["Strophe.Props." + pid, "Strophe.Drv." + prop.ENGINE[0].upper() + prop.ENGINE[1:]]
        mine = {os.path.splitext(os.path.basename(f))[0] for f in lean_files(roots)
                if os.sep + "Gen" + os.sep in f}
        relevant = []
        for e in ext_errs:
            m = re.match(r"\S+ \[([^\]]*)\](?: \{only ([^}]*)\})?", e)
            mods = [x[4:] for x in m.group(1).split(",") if x] if m else []
            only = m.group(2).split(",") if m and m.group(2) else None
            if only is not None:
                if pid in only:
                    relevant.append(e)
            elif not mods or mine & set(mods):
                relevant.append(e)
        if relevant:
            proof_problems.append("extractor: " + "; ".join(relevant))
    broken = []
    if not ok_props:
        broken = failing_theorems(pid, log_props)
        proof_problems.append("lake build Strophe.Props.%s failed: %s" % (pid, "; ".join(broken) or log_props[-800:]))
    drv_mod = "Strophe.Drv." + prop.ENGINE[0].upper() + prop.ENGINE[1:]
    also_mods = []
    for (mname, _n) in getattr(prop, "ALSO", []):
        e2 = importlib.import_module("props." + mname).ENGINE
        also_mods.append("Strophe.Drv." + e2[0].upper() + e2[1:])
    tok_hits = audit_tokens(["Strophe.Props." + pid, drv_mod] + also_mods)
    if tok_hits:
        proof_problems.append("forbidden tokens: " + "; ".join(tok_hits[:10]))
    axioms_seen = set()
    if ok_props:
        ax, ax_log, ax_rc = print_axioms(pid, thms)
        missing = [t for t in thms if t not in ax]
        if missing:
            proof_problems.append("#print axioms gave no answer for: " + ", ".join(missing[:8]))
        for t, lst in ax.items():
            axioms_seen.update(lst)
            bad = [a for a in lst if a not in ALLOWED_AXIOMS]
            if bad:
                proof_problems.append("theorem %s depends on disallowed axioms %s" % (t, bad))
    leanchecker = None
    if ok_props and tier == "thorough":
        p = subprocess.run(["lake", "env", "leanchecker", "Strophe.Props." + pid], cwd=LEAN,
                           capture_output=True, text=True)
        leanchecker = p.returncode == 0
        if not leanchecker:
            proof_problems.append("leanchecker rejected Strophe.Props.%s: %s" % (pid, (p.stdout + p.stderr)[-400:]))
    if h_err:
        # the implementation no longer compiles under the harness: nothing can be tied
        proof_problems.append("harness build failed: " + h_err[-1500:])

    # ---- step 2: correspondence + oracles -------------------------------------------------
    if args.replay:
        with open(args.replay) as f:
            txt = f.read()
        if txt.lstrip().startswith("{"):
            rp = json.loads(txt)
        else:   # a plain .ops file (corpus format)
            rp = {"ops": [l for l in txt.split("\n") if l.strip()]}
        rprop = prop
        for (mname, _n) in getattr(prop, "ALSO", []):
            m2 = importlib.import_module("props." + mname)
            if rp.get("engine") == m2.ENGINE and rp.get("engine") != prop.ENGINE:
                rprop = m2
        passes = [(rprop, [Case(rp["ops"], "replay")])]
    else:
        cases = [Case(ops, "corpus") for ops in prop.corpus()]
        cases += [Case(ops, "gen") for ops in prop.generate(rng, tier, args.cases)]
        passes = [(prop, cases)]
        # companion passes: sessions of another engine that exercise code this property also
        # depends on (e.g. the negotiation of compression lives in auth.c = engine conn)
        for (mname, ncomp) in getattr(prop, "ALSO", []):
            m2 = importlib.import_module("props." + mname)
            n2 = ncomp if tier == "quick" else ncomp * 10
            passes.append((m2, [Case(ops, "gen-companion") for ops in m2.generate(rng, tier, n2)]))
    # (a driver that does not come back is a finding: the slices are small, so these are generous)
    timeout = 1200 if tier == "thorough" else 150
    evaluations = 0
    tags = {}
    all_fails = []   # (case, failure)
    diffs = 0
    cases = []
    c_results_all = []
    l_results_all = []
    ran_both = True
    for (pp, pcases) in passes:
        if pp is prop:
            p_hdrv = hdrv
        else:
            try:
                p_hdrv = build.build_harness(pp.ENGINE)
            except build.BuildError as e:
                p_hdrv = None
                proof_problems.append("harness build failed (%s): %s" % (pp.ENGINE, (e.what + e.log)[-800:]))
        for c in pcases:
            c.prop = pp
            c.hdrv = p_hdrv
        stateful = pp.STATEFUL
        if not ok_drv and pp is prop:
            proof_problems.append("model driver does not build: " + log_drv[-800:])
        # bounded memory: the cases of a pass are run and evaluated in chunks, on all cores
        CH = 16000
        for c0 in range(0, max(1, len(pcases)), CH):
            chunk = pcases[c0:c0 + CH]
            if not chunk:
                break
            c_results = l_results = None
            if p_hdrv:
                c_results = run_side_parallel([p_hdrv, pp.ENGINE], chunk, stateful, timeout)
            if ok_drv and not os.environ.get("VERIF_IMPL_ONLY"):
                l_cases = chunk
                if hasattr(pp, "lean_input") and c_results:
                    # recorded-parameter replay (DESIGN §3.2): the model consumes the ops annotated with
                    # what the external engine did on the implementation side
                    l_cases = []
                    for ci, case in enumerate(chunk):
                        extras = [ex for _, ex in c_results[ci]["outs"]]
                        extras += [[]] * (len(case.ops) - len(extras))
                        l_cases.append(Case(pp.lean_input(case.ops, extras), case.origin, nout=len(case.ops)))
                l_results = run_side_parallel([build.drv_path(), pp.ENGINE], l_cases, stateful, timeout)
            if not (c_results and l_results):
                ran_both = False
            if c_results:
                for ci, case in enumerate(chunk):
                    evaluations += len(case.ops)
                    lr = l_results[ci] if l_results else None
                    fails = evaluate_case(pp, case, c_results[ci], lr)
                    for f in fails:
                        if pp is not prop:
                            f["signature"] = f["signature"].replace(pp.ID + ":", pid + ":", 1)
                        all_fails.append((case, f))
                        if f["kind"] == "diff":
                            diffs += 1
                    if lr is not None:
                        for t in pp.tags(case, [m for m, _ in c_results[ci]["outs"]]):
                            tags[t] = tags.get(t, 0) + 1
                cases += chunk
                if len(c_results_all) < 64:      # kept for samples / replay printing only
                    c_results_all += c_results[:64]
                    l_results_all += (l_results[:64] if l_results else [None] * min(64, len(chunk)))
    c_results = c_results_all or None
    l_results = l_results_all if any(x is not None for x in l_results_all) else None

    # ---- step 3: verdict --------------------------------------------------------------------
    def write_replay(name, payload):
        path = os.path.join(VERIF, "evidence", "replays", name)
        with open(path, "w") as f:
            json.dump(payload, f, indent=1)
        return path

    reported_sigs = set()
    concrete = [x for x in all_fails if x[1]["kind"] in ("oracle", "crash")]
    diff_only = [x for x in all_fails if x[1]["kind"] in ("diff", "model-crash")]
    for case, f in concrete:
        sig = f["signature"]
        if sig in reported_sigs:
            continue
        reported_sigs.add(sig)
        k = match_known(known, sig)
        if k:
            known_printed.append("KNOWN-FINDING: property=%s %s" % (pid, k["what"]))
            continue
        cp = case.prop
        stateful = cp.STATEFUL
        ops = case.ops[: f["op"] + 1] if stateful else [case.ops[min(f["op"], len(case.ops) - 1)]]
        if stateful and case.hdrv and len(ops) > 3 and cp is prop:
            ops = shrink_ops(cp, case.hdrv, ops, f, timeout)
        path = write_replay("%s-%d-%d.json" % (pid, seed, len(violations)),
                            {"property": pid, "engine": cp.ENGINE, "ops": ops, "kind": f["kind"],
                             "signature": sig, "detail": f["detail"], "seed": seed, "tier": tier})
        violations.append((path, ""))
        if len(violations) >= 5:
            break
    concrete_unlisted = len(violations)
    if diff_only and not concrete_unlisted:
        # correspondence broken, oracle silent on every explored input
        case, f = diff_only[0]
        stateful = case.prop.STATEFUL
        k = match_known(known, f["signature"])
        if k:
            known_printed.append("KNOWN-FINDING: property=%s %s" % (pid, k["what"]))
        else:
            ops = case.ops[: f["op"] + 1] if stateful else [case.ops[f["op"]]]
            path = write_replay("%s-%d-corr.json" % (pid, seed),
                                {"property": pid, "engine": case.prop.ENGINE, "ops": ops,
                                 "kind": "correspondence", "detail": f["detail"],
                                 "broken": "correspondence model/implementation, first diverging op %d" % f["op"],
                                 "seed": seed, "tier": tier})
            violations.append((path, " no-failing-input-found"))
    if proof_problems and not concrete_unlisted and not (diff_only and violations):
        path = write_replay("%s-%d-proof.json" % (pid, seed),
                            {"property": pid, "kind": "proof-obligation", "broken": proof_problems,
                             "theorems": broken, "seed": seed, "tier": tier})
        violations.append((path, " no-failing-input-found"))

    # ---- step 4: evidence -------------------------------------------------------------------
    samples = []
    for ci in range(min(3, len(cases))):
        if c_results:
            samples.append({"ops": cases[ci].ops[:6], "impl": [m for m, _ in c_results[ci]["outs"]][:6]})
    samples.append({"obligations": thms[:40]})
    evidence = {
        "property_id": pid,
        "tier": tier,
        "seed": seed,
        "level": prop.LEVEL,
        "coverage": {
            "obligations": obligations,
            "discharged": discharged if not [p for p in proof_problems if "axiom" in p or "forbidden" in p] else 0,
            "checker_cmd": "cd lean && lake build Strophe.Props.%s && lake env lean .lake/audit_%s.lean (#print axioms)%s"
                           % (pid, pid, " && lake env leanchecker Strophe.Props.%s" % pid if tier == "thorough" else ""),
            "trusted_base": ["Lean 4.33.0 kernel", "axioms: " + (", ".join(sorted(axioms_seen)) or "none"),
                             "extract/extract.py (tables/constants from /repo/src)",
                             "harness/ (C correspondence driver, clang-14 ASan+UBSan)"] + prop.TRUSTED,
            "theorems": thms,
            "examples": n_examples,
            "leanchecker": leanchecker,
            "evaluations": evaluations,
            "cases": len(cases),
            "distinct_nontrivial": len(tags),
            "rule": prop.RULE,
            "tag_histogram": dict(sorted(tags.items(), key=lambda kv: -kv[1])[:400]),
            "traces_validated_against_impl": len(cases) if (c_results and l_results and ran_both) else 0,
            "correspondence_disagreements": diffs,
            "samples": samples,
            "fingerprints": {k: v for k, v in fingerprints.items() if k.split(":")[0] in prop.FILES},
            "proof_problems": proof_problems,
            "lake_build_s": round(t_lake + t_drv, 1),
        },
        "assumptions": prop.ASSUMPTIONS,
        "wall_s": round(time.time() - t0, 2),
        "violations": len(violations),
    }
    with open(evid_path, "w") as f:
        json.dump(evidence, f, indent=1)

    for line in dict.fromkeys(known_printed):      # one line per listed finding
        print(line)
    for path, suffix in violations:
        print("VIOLATION property=%s replay=%s%s" % (pid, path, suffix))
    if args.replay and c_results:
        for ci, case in enumerate(cases):
            for i, op in enumerate(case.ops):
                co = c_results[ci]["outs"][i][0] if i < len(c_results[ci]["outs"]) else "<no output: %s>" % c_results[ci]["crash"]
                lo = l_results[ci]["outs"][i][0] if l_results and l_results[ci] and i < len(l_results[ci]["outs"]) else "<none>"
                print("op %d: %s\n   impl : %s\n   model: %s" % (i, op[:200], co[:300], lo[:300]))
    print("%s %s seed=%d: %d obligations (%d discharged), %d cases / %d ops, %d distinct tags, "
          "%d disagreements, %d violations, %.1fs"
          % (pid, tier, seed, obligations, evidence["coverage"]["discharged"], len(cases), evaluations,
             len(tags), diffs, len(violations), time.time() - t0))
    return 1 if violations else 0


if __name__ == "__main__":
    sys.exit(main())
