#!/usr/bin/env python3
"""C10: regenerate lean/Strophe/Gen/Parser.lean from /repo/src/parser_expat.c.

Extracted: the namespace separator handed to expat (`namespace_sep`), the growth padding of the
inner-text buffer (`INNER_TEXT_PADDING`), the attribute name `xmpp_stanza_set_ns` writes
(stanza.c), and — because the Lean model of `parser_reset` has one line per field it clears —
the set of `parser->FIELD = …` assignments in `parser_reset` (so that adding or removing a
cleared field there changes a pinned definition and breaks a proof obligation instead of
silently diverging from the model).
"""
import re

from extract import src, strip_comments, write, ExtractError, fn_body_x as fn_body, define, c_int


def gen_parser():
    raw = src("parser_expat.c")
    text = strip_comments(raw)
    m = re.search(r"const\s+XML_Char\s+namespace_sep\s*=\s*('(?:\\x[0-9A-Fa-f]{1,2}|\\?.)')\s*;", text)
    if not m:
        raise ExtractError("namespace_sep not found")
    lit = m.group(1)
    mx = re.fullmatch(r"'\\x([0-9A-Fa-f]{1,2})'", lit)
    sep = int(mx.group(1), 16) if mx else c_int(lit)
    pad = define(text, "INNER_TEXT_PADDING")
    body = fn_body(text, "parser_reset")
    fields = sorted(set(re.findall(r"parser->(\w+)\s*=[^=]", body)))
    if "depth" not in fields or "inner_text" not in fields or "stanza" not in fields:
        raise ExtractError("parser_reset no longer clears depth/stanza/inner_text: %s" % fields)
    chars = fn_body(text, "_characters")
    g = re.search(r"parser->depth\s*<\s*(\d+)", chars)
    if not g:
        raise ExtractError("_characters depth guard not found")
    st = strip_comments(src("stanza.c"))
    ns = re.search(r'xmpp_stanza_set_attribute\s*\(\s*stanza\s*,\s*"([^"]*)"\s*,\s*ns\s*\)',
                   fn_body(st, "xmpp_stanza_set_ns"))
    if not ns:
        raise ExtractError("xmpp_stanza_set_ns attribute name not found")
    write("Parser",
          "namespace Strophe.Gen\n\n"
          "/-- parser_expat.c `namespace_sep` (the separator given to XML_ParserCreate_MM) -/\n"
          "def parserNamespaceSep : Nat := %d\n"
          "/-- parser_expat.c `INNER_TEXT_PADDING` -/\n"
          "def parserInnerTextPadding : Nat := %d\n"
          "/-- `_characters` ignores text while `parser->depth < N` -/\n"
          "def parserTextMinDepth : Nat := %s\n"
          "/-- the attribute written by `xmpp_stanza_set_ns` (stanza.c), as bytes -/\n"
          "def stanzaNsAttr : List Nat := %s\n"
          "/-- the fields `parser_reset` assigns (`parser->F = …`), sorted -/\n"
          "def parserResetFields : List String := [%s]\n\n"
          "end Strophe.Gen\n" % (sep, pad, g.group(1), list(ns.group(1).encode()),
                                 ", ".join('"%s"' % f for f in fields)))


GENERATORS = [gen_parser]

FINGERPRINTS = {
    "parser_expat.c": ["_xml_name", "_xml_namespace", "_set_attributes", "complete_inner_text",
                       "_start_element", "_end_element", "_characters", "parser_new",
                       "parser_reset", "parser_feed", "parser_free"],
}
