"""Constants of conn.c / auth.c / event.c / common.h / strophe.h used by the connection models."""
import re

from extract import src, strip_comments, write, ExtractError, define, fn_body_x as fn_body


def _read(path):
    import os
    from extract import REPO
    with open(os.path.join(REPO, path), encoding="utf-8", errors="replace") as f:
        return f.read()


def c_string(text, name):
    m = re.search(r"\b" + re.escape(name) + r"\s*=\s*((?:\"(?:\\.|[^\"\\])*\"\s*)+);", text)
    if not m:
        raise ExtractError("string constant %s not found" % name)
    parts = re.findall(r"\"((?:\\.|[^\"\\])*)\"", m.group(1))
    return bytes("".join(parts), "utf-8").decode("unicode_escape").encode("latin-1")


def lean_bytes(b):
    return "[" + ", ".join(str(x) for x in b) + "]"


def gen_conn():
    conn = strip_comments(src("conn.c"))
    req_ack = c_string(fn_body(conn, "_send_raw"), "req_ack")
    auth = strip_comments(src("auth.c"))
    event = strip_comments(src("event.c"))
    common = strip_comments(src("common.h"))
    hdr = strip_comments(_read("strophe.h"))
    timeouts = {}
    for n in ["FEATURES_TIMEOUT", "BIND_TIMEOUT", "SESSION_TIMEOUT", "LEGACY_TIMEOUT", "HANDSHAKE_TIMEOUT"]:
        timeouts[n] = define(auth, n)
    for n in ["CONNECT_TIMEOUT", "DISCONNECT_TIMEOUT"]:
        timeouts[n] = define(conn, n)
    flags = {}
    for m in re.finditer(r"#\s*define\s+(XMPP_CONN_FLAG_\w+)\s+\(\s*1UL\s*<<\s*(\d+)\s*\)", hdr):
        flags[m.group(1)] = 1 << int(m.group(2))
    if len(flags) < 8:
        raise ExtractError("XMPP_CONN_FLAG_* definitions not found (%d)" % len(flags))
    owners = {}
    for n in ["XMPP_QUEUE_STROPHE", "XMPP_QUEUE_USER", "XMPP_QUEUE_SM"]:
        m = re.search(n + r"\s*=\s*(0x[0-9a-fA-F]+|\d+)", common)
        if not m:
            raise ExtractError(n + " not found")
        owners[n] = int(m.group(1), 0)
    ports = {}
    for n in ["XMPP_PORT_CLIENT", "XMPP_PORT_CLIENT_LEGACY_SSL", "XMPP_PORT_COMPONENT"]:
        m = re.search(n + r"\s*=\s*(\d+)", common)
        if not m:
            raise ExtractError(n + " not found")
        ports[n] = int(m.group(1))
    sasl = {}
    for m in re.finditer(r"#\s*define\s+(SASL_MASK_\w+)\s+\(\s*1\s*<<\s*(\d+)\s*\)", common):
        sasl[m.group(1)] = 1 << int(m.group(2))
    body = "namespace Strophe.Gen\n\n"
    body += "/-- `req_ack` in `_send_raw` (conn.c) -/\ndef reqAck : List UInt8 := %s\n\n" % lean_bytes(req_ack)
    for k, v in timeouts.items():
        body += "def %s : Nat := %d\n" % (lower_camel(k), v)
    body += "\n"
    for k, v in sorted(flags.items(), key=lambda kv: kv[1]):
        body += "def %s : Nat := %d\n" % (lower_camel(k.replace("XMPP_CONN_", "")), v)
    body += "\n"
    for k, v in owners.items():
        body += "def %s : Nat := %d\n" % (lower_camel(k.replace("XMPP_", "")), v)
    for k, v in ports.items():
        body += "def %s : Nat := %d\n" % (lower_camel(k.replace("XMPP_", "")), v)
    for k, v in sorted(sasl.items(), key=lambda kv: kv[1]):
        body += "def %s : Nat := %d\n" % (lower_camel(k), v)
    body += "\n/-! namespaces (strophe.h) -/\n"
    for m in re.finditer(r'#\s*define\s+(XMPP_NS_\w+)\s+"([^"]*)"', _read("strophe.h")):
        body += "def %s : List UInt8 := %s\n" % (lower_camel(m.group(1).replace("XMPP_", "")),
                                                  lean_bytes(m.group(2).encode()))
    scram = strip_comments(src("scram.c"))
    order = re.search(r"scram_algs\[\]\s*=\s*\{(.*?)\};", scram, re.S)
    if not order:
        raise ExtractError("scram_algs[] not found")
    algs = []
    for ref in re.findall(r"&(\w+)", order.group(1)):
        m = re.search(r"const struct hash_alg " + ref + r"\s*=\s*\{\s*\"([^\"]+)\",\s*(SASL_MASK_\w+)", scram)
        if not m:
            raise ExtractError("hash_alg %s not found" % ref)
        algs.append((m.group(1), sasl[m.group(2)]))
    body += "\n/-- `scram_algs[]` (scram.c) in order: (mechanism name, mask) -/\n"
    body += "def scramAlgs : List (List UInt8 × Nat) := [" + ", ".join(
        "(%s, %d)" % (lean_bytes(n.encode()), mk) for n, mk in algs) + "]\n"
    body += "\n/-! stream error conditions in enum order (strophe.h xmpp_error_type_t / auth.c _handle_error) -/\n"
    enum = re.search(r"typedef enum \{([^}]*)\}\s*xmpp_error_type_t", hdr, re.S)
    if not enum:
        raise ExtractError("xmpp_error_type_t not found")
    enum_names = re.findall(r"XMPP_SE_\w+", enum.group(1))
    herr = fn_body(auth, "_handle_error")
    # `else if (strcmp(name, "a") == 0 [|| strcmp(name, "b") == 0]) conn->stream_error->type = X;`
    table = {}
    for cond, enum_name in re.findall(r'if\s*\(((?:\s*strcmp\(name,\s*"[^"]+"\)\s*==\s*0\s*(?:\|\|)?)+)\)\s*conn->stream_error->type\s*=\s*(XMPP_SE_\w+)', herr):
        table.setdefault(enum_name, [])
        table[enum_name] += re.findall(r'"([^"]+)"', cond)
    # … or a lookup table `{"name", XMPP_SE_X}, …`
    for nm, enum_name in re.findall(r'\{\s*"([^"]+)"\s*,\s*(XMPP_SE_\w+)\s*\}', auth):
        table.setdefault(enum_name, [])
        if nm not in table[enum_name]:
            table[enum_name].append(nm)
    rows = []
    for i, e in enumerate(enum_names):
        for nm in table.get(e, []):
            rows.append('(%d, %s)' % (i, lean_bytes(nm.encode())))
    soft = None
    if len(rows) < 20:
        # the mapping is written in a form this translator does not read: keep the last table that
        # was read (the correspondence check still compares every condition with the real code) and
        # tell the property that pins the table
        try:
            from extract import GEN
            import os
            old = open(os.path.join(GEN, "Conn.lean")).read()
            m_old = re.search(r"def streamErrorNames : List \(Nat × List UInt8\) := \[\n  (.*?)\]\n", old, re.S)
            if m_old and m_old.group(1).strip():
                rows = [r for r in m_old.group(1).split(",\n  ")]
        except OSError:
            pass
        soft = ExtractError("_handle_error: the stream error condition table is no longer in a form the "
                            "translator reads (%d names found); last read table kept" % len(table))
        soft.only_props = ["C13"]
    body += "def streamErrorNames : List (Nat × List UInt8) := [\n  " + ",\n  ".join(rows) + "]\n"
    # the buffers the XEP-0198 counters are printed into (`<a h=…/>`, `<resume h=…/>`): a uint32
    # needs 10 digits + NUL
    hb = []
    for text, fn in ((conn, "_conn_sm_handle_stanza"), (auth, "_handle_features_sasl")):
        m = re.search(r"\bchar\s+h\s*\[\s*(\d+)\s*\]", fn_body(text, fn))
        if not m:
            raise ExtractError("buffer `char h[N]` not found in %s" % fn)
        hb.append(int(m.group(1)))
    body += "/-- sizes of the `char h[N]` buffers of `_conn_sm_handle_stanza` and `_handle_features_sasl` -/\n"
    body += "def smHBufSizes : List Nat := [%s]\n" % ", ".join(map(str, hb))
    # the XEP-0198 counters themselves: 32-bit fields, plain (wrapping) increments, printed unsigned.
    # What happens at 2^31 and 2^32 stanzas is beyond any differential run, so these statements are
    # translated and pinned (C04.pin_sent_counter, C05.pin_counters) to what the model does
    # (`UInt32`, `+ 1`, decimal of the unsigned value).
    common = strip_comments(src("common.h"))
    bits = []
    for f in ("sm_handled_nr", "sm_sent_nr"):
        m = re.search(r"\buint(\d+)_t\s+%s\s*;" % f, common)
        bits.append(int(m.group(1)) if m else 0)
    hs = re.sub(r"\s+", "", fn_body(conn, "_conn_sm_handle_stanza"))
    handled_incr = bool(re.search(r"if\(ns&&strcmp\(ns,XMPP_NS_SM\)!=0\)\{?(\+\+conn->sm_state->sm_handled_nr|"
                                  r"conn->sm_state->sm_handled_nr\+\+|conn->sm_state->sm_handled_nr\+=1);\}?else", hs))
    ev = re.sub(r"\s+", "", fn_body(strip_comments(src("event.c")), "xmpp_run_once"))
    sent_incr = bool(re.search(r"(\w+)->sm_h=conn->sm_state->sm_sent_nr;(conn->sm_state->sm_sent_nr\+\+|"
                               r"\+\+conn->sm_state->sm_sent_nr|conn->sm_state->sm_sent_nr\+=1);", ev))
    fmts = []
    for text, fn in ((conn, "_conn_sm_handle_stanza"), (auth, "_handle_features_sasl")):
        m = re.search(r'strophe_snprintf\s*\(\s*h\s*,\s*sizeof\s*\(\s*h\s*\)\s*,\s*"([^"]*)"\s*,\s*'
                      r'conn->sm_state->sm_handled_nr\s*\)', fn_body(text, fn))
        fmts.append(m.group(1) if m else "?")
    body += "/-- widths of the fields `sm_handled_nr`, `sm_sent_nr` (common.h) -/\n"
    body += "def smCounterBits : List Nat := [%s]\n" % ", ".join(map(str, bits))
    body += "/-- `_conn_sm_handle_stanza` counts with a plain increment under `ns && strcmp(ns, XMPP_NS_SM) != 0` -/\n"
    body += "def smHandledPlainIncr : Bool := %s\n" % ("true" if handled_incr else "false")
    body += "/-- `xmpp_run_once` numbers a written stanza with `sm_sent_nr` and then increments it, plainly -/\n"
    body += "def smSentPlainIncr : Bool := %s\n" % ("true" if sent_incr else "false")
    body += "/-- conversion used to print the inbound count into `<a h=…/>` and `<resume h=…/>` -/\n"
    body += "def smHFormats : List String := [%s]\n" % ", ".join('"%s"' % f.replace("\\", "\\\\") for f in fmts)
    body += "\nend Strophe.Gen\n"
    write("Conn", body)
    if soft is not None:
        raise soft


def lower_camel(name):
    parts = name.lower().split("_")
    return parts[0] + "".join(p.capitalize() for p in parts[1:])


GENERATORS = [gen_conn]
FINGERPRINTS = {
    "conn.c": ["_send_raw", "send_raw", "xmpp_send_raw", "xmpp_conn_send_queue_len",
               "_drop_send_queue_element", "xmpp_conn_send_queue_drop_element", "conn_disconnect",
               "xmpp_conn_restore_sm_state", "sm_state_serialize", "sm_load_u32", "sm_load_string",
               "_conn_sm_handle_stanza", "_reset_sm_state_for_reconnect", "_conn_reset", "xmpp_conn_set_flags",
               "xmpp_conn_get_flags"],
    "event.c": ["xmpp_run_once", "_connect_next"],
    "auth.c": ["_auth", "_handle_features", "_handle_sm", "_handle_features_sasl", "_handle_bind",
               "_sm_queue_cleanup", "_sm_queue_resend", "_handle_sasl_result"],
}
