#!/usr/bin/env python3
"""C20: regenerate lean/Strophe/Gen/Compression.lean from /repo/src/compression.c, event.c and the
system's <zlib.h>/<errno.h>.

Extracted: STROPHE_COMPRESSION_BUFFER_SIZE (staging buffers of both directions),
STROPHE_MESSAGE_BUFFER_SIZE (the buffer xmpp_run_once reads into), the flush modes
compression_write / compression_flush / _conn_decompress hand to zlib (by name), the numeric
values of the zlib and errno constants the model prints, and whether compression_free releases
the record itself (the model's inventory has one line per object it frees).
"""
import errno
import re

from extract import src, strip_comments, write, ExtractError, fn_body_x as fn_body, define


def _zconst(text, name):
    m = re.search(r"#\s*define\s+" + name + r"\s+\(?\s*(-?\d+)\s*\)?", text)
    if not m:
        raise ExtractError("zlib.h: %s not found" % name)
    return int(m.group(1))


def gen_compression():
    comp = strip_comments(src("compression.c"))
    ev = strip_comments(src("event.c"))
    bufsz = define(comp, "STROPHE_COMPRESSION_BUFFER_SIZE")
    msgsz = define(ev, "STROPHE_MESSAGE_BUFFER_SIZE")
    w = fn_body(comp, "compression_write")
    m = re.search(r"_compression_write\s*\([^;]*,\s*(Z_\w+)\s*\)", w)
    if not m:
        raise ExtractError("compression_write: flush mode not found")
    write_mode = m.group(1)
    f = fn_body(comp, "compression_flush")
    m = re.search(r"dont_reset\s*\?\s*(Z_\w+)\s*:\s*(Z_\w+)", f)
    if not m:
        raise ExtractError("compression_flush: flush modes not found")
    flush_keep, flush_reset = m.group(1), m.group(2)
    d = fn_body(comp, "_conn_decompress")
    m = re.search(r"inflate\s*\([^;]*,\s*(Z_\w+)\s*\)", d)
    if not m:
        raise ExtractError("_conn_decompress: inflate mode not found")
    inflate_mode = m.group(1)
    fr = fn_body(comp, "compression_free")
    frees = sorted(set(re.findall(r"strophe_free(?:_and_null)?\s*\(\s*conn->ctx\s*,\s*([^)]+?)\s*\)", fr)))
    frees_record = any(re.fullmatch(r"comp|conn->compression\.state", x) for x in frees)
    try:
        with open("/usr/include/zlib.h", encoding="utf-8", errors="replace") as fh:
            zh = fh.read()
    except OSError as e:
        raise ExtractError("zlib.h unreadable: %s" % e)
    names = ["Z_NO_FLUSH", "Z_SYNC_FLUSH", "Z_FULL_FLUSH", "Z_OK", "Z_STREAM_END", "Z_BUF_ERROR"]
    z = {n: _zconst(zh, n) for n in names}
    for mode in (write_mode, flush_keep, flush_reset, inflate_mode):
        if mode not in z:
            raise ExtractError("unexpected zlib flush mode %s" % mode)
    write("Compression",
          "namespace Strophe.Gen.Zl\n\n"
          "/-- compression.c STROPHE_COMPRESSION_BUFFER_SIZE -/\n"
          "def compressionBufferSize : Nat := %d\n"
          "/-- event.c STROPHE_MESSAGE_BUFFER_SIZE (length handed to intf->read) -/\n"
          "def messageBufferSize : Nat := %d\n"
          "/-- flush argument of deflate in compression_write -/\n"
          "def compressionWriteMode : Int := %d\n"
          "/-- flush argument in compression_flush when compression.dont_reset is set / clear -/\n"
          "def compressionFlushModeDontReset : Int := %d\n"
          "def compressionFlushModeReset : Int := %d\n"
          "/-- flush argument of inflate in _conn_decompress -/\n"
          "def compressionInflateMode : Int := %d\n"
          "def zNoFlush : Int := %d\ndef zSyncFlush : Int := %d\ndef zFullFlush : Int := %d\n"
          "def zOk : Int := %d\ndef zStreamEnd : Int := %d\ndef zBufError : Int := %d\n"
          "/-- errno values of the build host (sock_is_recoverable: EAGAIN, EINTR; event.c: ECONNRESET,\n"
          "    ECONNABORTED) -/\n"
          "def eAgain : Int := %d\ndef eIntr : Int := %d\ndef eConnReset : Int := %d\n"
          "def eConnAborted : Int := %d\n"
          "/-- the expressions compression_free hands to strophe_free*, sorted -/\n"
          "def compressionFreeFrees : List String := [%s]\n"
          "/-- does compression_free release the `struct xmpp_compression` record itself? -/\n"
          "def compressionFreeFreesRecord : Bool := %s\n\n"
          "end Strophe.Gen.Zl\n"
          % (bufsz, msgsz, z[write_mode], z[flush_keep], z[flush_reset], z[inflate_mode],
             z["Z_NO_FLUSH"], z["Z_SYNC_FLUSH"], z["Z_FULL_FLUSH"], z["Z_OK"], z["Z_STREAM_END"],
             z["Z_BUF_ERROR"], errno.EAGAIN, errno.EINTR, errno.ECONNRESET, errno.ECONNABORTED,
             ", ".join('"%s"' % x for x in frees), "true" if frees_record else "false"))


GENERATORS = [gen_compression]

FINGERPRINTS = {
    "compression.c": ["_conn_decompress", "compression_read", "_try_compressed_write_to_network",
                      "_compression_write", "compression_write", "compression_flush",
                      "compression_pending", "compression_get_error", "compression_is_recoverable",
                      "compression_init", "compression_free"],
    "event.c": ["xmpp_run_once"],
    "conn.c": ["conn_interface_write", "conn_disconnect", "send_raw", "_send_raw"],
}
