#!/usr/bin/env python3
"""C11: regenerate lean/Strophe/Gen/Handler.lean from /repo/src/handler.c.

handler.c has no tables or constants; what the model assumes about its STRUCTURE is extracted as
Boolean facts (pinned by `Strophe.C11.pin_structure`), so that reverting one of the repairs or
changing a list discipline breaks a proof obligation and not only the differential run:

  * enableBeforeIdPhase     the loop enabling conn->handlers stands in front of the id phase of
                            handler_fire_stanza (repair of D27)
  * headRereadBeforeRemove  the id phase reads the list head from the table again before it unlinks a
                            handler that returned 0 (repair of D7)
  * nextRereadAfterCallback every dispatch loop assigns `next = item->next` after the callback
  * dupCheckBoth            _handler_add/_id_handler_add/_timed_handler_add compare callback AND userdata
  * deleteByCallbackOnly    the three delete functions compare the callback pointer only
  * stanzaNewAtBack / idNewAtBack / timedNewAtFront   where new items are linked in
  * newItemsDisabled        new items start with enabled = 0
"""
import re

from extract import src, strip_comments, write, ExtractError, fn_body


def _b(x):
    return "true" if x else "false"


def gen_handler():
    text = strip_comments(src("handler.c"))
    fire = fn_body(text, "handler_fire_stanza")
    timed = fn_body(text, "handler_fire_timed")
    hadd = fn_body(text, "_handler_add")
    iadd = fn_body(text, "_id_handler_add")
    tadd = fn_body(text, "_timed_handler_add")
    hdel = fn_body(text, "xmpp_handler_delete")
    idel = fn_body(text, "xmpp_id_handler_delete")
    tdel = fn_body(text, "_timed_handler_delete")

    def pos(hay, pat, start=0):
        m = re.compile(pat, re.S).search(hay, start)
        return m.start() if m else -1

    # the enabling loop, written in place or as a static helper `f(list)` whose whole body is that loop
    helpers = []
    for m in re.finditer(r"\bstatic\s+void\s+(\w+)\s*\(\s*xmpp_handlist_t\s*\*\s*(\w+)\s*\)\s*\{(.*?)\n\}", text, re.S):
        b = re.sub(r"\s+", "", m.group(3))
        if re.fullmatch(r"(xmpp_handlist_t\*(\w+);)?for\((\w+)=%s;\3;\3=\3->next\)\{?\3->enabled=1;\}?" % re.escape(m.group(2)), b):
            helpers.append(m.group(1))
    enable_pat = r"for\s*\(\s*item\s*=\s*conn->handlers\s*;[^)]*\)\s*item->enabled\s*=\s*1"
    if helpers:
        enable_pat += r"|\b(?:%s)\s*\(\s*conn->handlers\s*\)" % "|".join(map(re.escape, helpers))
    p_enable = pos(fire, enable_pat)
    if p_enable < 0:
        raise ExtractError("handler_fire_stanza: the loop enabling conn->handlers was not found")
    p_getid = pos(fire, r"xmpp_stanza_get_id\s*\(")
    if p_getid < 0:
        raise ExtractError("handler_fire_stanza: xmpp_stanza_get_id not found")
    enable_before = 0 <= p_enable < p_getid

    p_getns = pos(fire, r"xmpp_stanza_get_ns\s*\(")
    idphase = fire[p_getid:p_getns if p_getns > 0 else len(fire)]
    p_notret = pos(idphase, r"if\s*\(\s*!\s*ret\s*\)")
    p_remove = pos(idphase, r"_handler_item_remove\s*\(\s*&head")
    p_reread = pos(idphase, r"head\s*=\s*(\([^)]*\)\s*)?hash_get\s*\(\s*conn->id_handlers\s*,\s*id\s*\)", max(p_notret, 0))
    head_reread = 0 <= p_notret < p_reread < p_remove

    # every callback invocation is followed by `next = item->next;` before the next `if (!ret)`
    def reread_ok(body):
        ok = True
        n = 0
        for m in re.finditer(r"ret\s*=\s*\(\s*\([^;]*?\)\s*\([^;]*?\)\s*;", body, re.S):
            n += 1
            rest = body[m.end():]
            a = pos(rest, r"next\s*=\s*item->next\s*;")
            b = pos(rest, r"if\s*\(\s*!\s*ret\s*\)")
            ok = ok and 0 <= a < b
        return ok, n
    ok1, n1 = reread_ok(fire)
    ok2, n2 = reread_ok(timed)
    next_reread = ok1 and ok2 and n1 == 2 and n2 == 2

    dup = r"item->handler\s*==\s*handler\s*&&\s*item->userdata\s*==\s*userdata"
    dup_both = all(re.search(dup, b) for b in (hadd, iadd, tadd))
    del_cb = all(re.search(r"item->handler\s*==\s*handler", b) and "userdata" not in b for b in (hdel, idel, tdel))
    stanza_back = bool(re.search(r"while\s*\(\s*tail->next\s*\)\s*tail\s*=\s*tail->next\s*;\s*tail->next\s*=\s*item", hadd))
    id_back = bool(re.search(r"while\s*\(\s*tail->next\s*\)\s*tail\s*=\s*tail->next\s*;\s*tail->next\s*=\s*item", iadd))
    timed_front = bool(re.search(r"item->next\s*=\s*\*handlers_list\s*;\s*\*handlers_list\s*=\s*item", tadd))
    disabled = (bool(re.search(r"item->enabled\s*=\s*0", iadd)) and bool(re.search(r"item->enabled\s*=\s*0", tadd)) and
                bool(re.search(r"memset\s*\(\s*item\s*,\s*0", hadd)))

    out = ["namespace Strophe.Gen.Handler", ""]
    for name, val in (("enableBeforeIdPhase", enable_before), ("headRereadBeforeRemove", head_reread),
                      ("nextRereadAfterCallback", next_reread), ("dupCheckBoth", dup_both),
                      ("deleteByCallbackOnly", del_cb), ("stanzaNewAtBack", stanza_back), ("idNewAtBack", id_back),
                      ("timedNewAtFront", timed_front), ("newItemsDisabled", disabled)):
        out.append("def %s : Bool := %s" % (name, _b(val)))
    out += ["", "end Strophe.Gen.Handler"]
    write("Handler", "\n".join(out) + "\n")


GENERATORS = [gen_handler]

FINGERPRINTS = {
    "handler.c": ["_handler_item_remove", "handler_fire_stanza", "handler_fire_timed", "handler_reset_timed",
                  "_timed_handler_add", "_timed_handler_delete", "_id_handler_add", "xmpp_id_handler_delete",
                  "_handler_add", "xmpp_handler_delete", "handler_system_delete_all"],
    "conn.c": ["_handle_stream_stanza", "xmpp_conn_release", "xmpp_send_raw_string"],
    "hash.c": ["hash_add", "hash_get", "hash_drop"],
    "util.c": ["time_elapsed"],
}
