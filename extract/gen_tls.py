#!/usr/bin/env python3
"""C08: regenerate lean/Strophe/Gen/Tls.lean from /repo/src/tls_openssl.c, conn.c, auth.c,
strophe.h and the system's OpenSSL headers.

Extracted (data only; control flow is tied by the correspondence engine `tls`):
* tls_new: the two SSL_set_verify calls (mode + callback under `conn->tls_trust` / otherwise), the
  argument of X509_VERIFY_PARAM_set_hostflags, the name handed to X509_VERIFY_PARAM_set1_host and
  to SSL_set_tlsext_host_name;
* _tls_verify: the value returned for preverify_ok == 1, the value returned without a certfail
  handler, and whether the handler's answer is returned as it is;
* tls_start: the expression that turns SSL_connect's result into the function result;
* conn_tls_start: the return codes of its three failure exits, what the success / failure branches
  assign (secured, tls_failed, interface restore, tls = NULL);
* xmpp_conn_is_secured: the conjunction it returns;
* what _handle_proceedtls_default and conn_established call when conn_tls_start fails;
* numeric values: SSL_VERIFY_NONE / SSL_VERIFY_PEER, X509_CHECK_FLAG_NO_PARTIAL_WILDCARDS,
  X509_V_ERR_HOSTNAME_MISMATCH, XMPP_EMEM / XMPP_EINVOP / XMPP_EINT, ECONNABORTED.
"""
import errno
import re

from extract import src, strip_comments, write, ExtractError, fn_body, fn_body_inlined, REPO

import os


def _hconst(path, name):
    try:
        with open(path, encoding="utf-8", errors="replace") as fh:
            text = fh.read()
    except OSError as e:
        raise ExtractError("%s unreadable: %s" % (path, e))
    m = re.search(r"#\s*define\s+" + name + r"\s+\(?\s*(-?(?:0x[0-9a-fA-F]+|\d+))\s*\)?", text)
    if not m:
        raise ExtractError("%s: %s not found" % (path, name))
    return int(m.group(1), 0)


def _norm(s):
    return re.sub(r"\s+", " ", s).strip()


def _lean_str(s):
    return '"' + s.replace("\\", "\\\\").replace('"', '\\"') + '"'


def gen_tls():
    t = strip_comments(src("tls_openssl.c"))
    new = fn_body(t, "tls_new")
    m = re.search(r"if\s*\(\s*conn->tls_trust\s*\)\s*SSL_set_verify\s*\(\s*tls->ssl\s*,\s*(\w+)\s*,\s*(\w+)\s*\)\s*;"
                  r"\s*else\s*SSL_set_verify\s*\(\s*tls->ssl\s*,\s*(\w+)\s*,\s*(\w+)\s*\)\s*;", new)
    if not m:
        raise ExtractError("tls_new: SSL_set_verify under conn->tls_trust not found")
    mode_trust, cb_trust, mode_default, cb_default = m.groups()
    # the host-name policy may be set up in a static helper called from tls_new
    newc = fn_body_inlined(t, "tls_new")
    hf = re.search(r"X509_VERIFY_PARAM_set_hostflags\s*\(\s*param\s*,\s*([\w\s|]+?)\s*\)", newc)
    if not hf:
        raise ExtractError("tls_new: X509_VERIFY_PARAM_set_hostflags not found")
    hostflag_names = [x.strip() for x in hf.group(1).split("|")]
    sh = re.search(r"X509_VERIFY_PARAM_set1_host\s*\(\s*param\s*,\s*([^,]+?)\s*,\s*(\w+)\s*\)", newc)
    if not sh:
        raise ExtractError("tls_new: X509_VERIFY_PARAM_set1_host not found")
    host_expr, host_len = _norm(sh.group(1)), sh.group(2)
    sni = re.search(r"SSL_set_tlsext_host_name\s*\(\s*tls->ssl\s*,\s*([^)]+?)\s*\)", newc)
    sni_expr = _norm(sni.group(1)) if sni else ""
    ssl_h = "/usr/include/openssl/ssl.h"
    v3_h = "/usr/include/openssl/x509v3.h"
    vfy_h = "/usr/include/openssl/x509_vfy.h"
    modes = {n: _hconst(ssl_h, n) for n in {mode_trust, mode_default, "SSL_VERIFY_NONE", "SSL_VERIFY_PEER"}}
    hostflags = 0
    for n in hostflag_names:
        hostflags |= _hconst(v3_h, n)
    no_partial = _hconst(v3_h, "X509_CHECK_FLAG_NO_PARTIAL_WILDCARDS")
    mismatch = _hconst(vfy_h, "X509_V_ERR_HOSTNAME_MISMATCH")

    ver = fn_body(t, "_tls_verify")
    m = re.search(r"if\s*\(\s*preverify_ok\s*==\s*1\s*\)\s*return\s+(-?\d+)\s*;", ver)
    if not m:
        raise ExtractError("_tls_verify: preverify_ok short cut not found")
    ret_preverified = int(m.group(1))
    m = re.search(r"if\s*\(\s*!\s*conn->certfail_handler\s*\)\s*\{[^}]*?return\s+(-?\d+)\s*;", ver, re.S)
    if not m:
        raise ExtractError("_tls_verify: branch without certfail handler not found")
    ret_no_handler = int(m.group(1))
    m = re.search(r"int\s+(\w+)\s*=\s*conn->certfail_handler\s*\(", ver)
    answer_as_is = bool(m and re.search(r"return\s+" + m.group(1) + r"\s*;", ver))

    st = fn_body(t, "tls_start")
    m = re.search(r"return\s+([^;]*ret[^;]*);", st)
    if not m:
        raise ExtractError("tls_start: return expression not found")
    start_ret = _norm(m.group(1))

    c = strip_comments(src("conn.c"))
    cts = fn_body(c, "conn_tls_start")
    m = re.search(r"if\s*\(\s*conn->tls_disabled\s*\)\s*\{[^}]*?rc\s*=\s*(\w+)\s*;", cts, re.S)
    rc_disabled = m.group(1) if m else None
    m = re.search(r"rc\s*=\s*conn->tls\s*==\s*NULL\s*\?\s*(\w+)\s*:\s*(\w+)\s*;", cts)
    rc_new_fail, rc_ok = (m.group(1), m.group(2)) if m else (None, None)
    m = re.search(r"if\s*\(\s*tls_start\s*\(\s*conn->tls\s*\)\s*\)\s*\{([^}]*)\}\s*else\s*\{([^}]*)\}", cts, re.S)
    if not (m and rc_disabled and rc_new_fail):
        raise ExtractError("conn_tls_start: structure not recognised")
    ok_branch, fail_branch = m.group(1), m.group(2)
    mm = re.search(r"rc\s*=\s*(\w+)\s*;", fail_branch)
    rc_start_fail = mm.group(1) if mm else None
    if not rc_start_fail:
        raise ExtractError("conn_tls_start: failure return code not found")
    sh_ = src("../strophe.h")
    codes = {}
    for n in {rc_disabled, rc_new_fail, rc_start_fail, "XMPP_EMEM", "XMPP_EINVOP", "XMPP_EINT"}:
        mm = re.search(r"#\s*define\s+" + n + r"\s+(-?\d+)", sh_)
        if not mm:
            if n == "0":
                codes[n] = 0
                continue
            raise ExtractError("strophe.h: %s not found" % n)
        codes[n] = int(mm.group(1))
    ok_sets_secured = bool(re.search(r"conn->secured\s*=\s*1\s*;", ok_branch))
    secured_elsewhere = len(re.findall(r"conn->secured\s*=\s*1\s*;", c)) - (1 if ok_sets_secured else 0)
    fail_sets_failed = bool(re.search(r"conn->tls_failed\s*=\s*1\s*;", fail_branch))
    fail_restores = bool(re.search(r"conn->intf\s*=\s*old_intf\s*;", fail_branch))
    fail_frees = bool(re.search(r"tls_free\s*\(\s*conn->tls\s*\)\s*;\s*conn->tls\s*=\s*NULL\s*;", fail_branch))
    fail_sets_error = bool(re.search(r"conn->error\s*=\s*tls_error\s*\(", fail_branch))
    cc = fn_body(c, "xmpp_connect_client")
    m = re.search(r"if\s*\(([^{};]*domain\s*\[\s*0\s*\][^{};]*)\)\s*\{[^}]*?return\s+(\w+)\s*;", cc, re.S)
    dom_cond = _norm(m.group(1)) if m else ""
    refuses_empty = bool(m and re.search(r"domain\s*\[\s*0\s*\]\s*==\s*'\\0'", dom_cond))
    refuses_dot = bool(m and re.search(r"domain\s*\[\s*0\s*\]\s*==\s*'\.'", dom_cond))
    dom_rc_name = m.group(2) if m else "0"
    if m:
        mm = re.search(r"#\s*define\s+" + dom_rc_name + r"\s+(-?\d+)", src("../strophe.h"))
        dom_rc = int(mm.group(1)) if mm else 0
    else:
        dom_rc = 0
    sec = fn_body(c, "xmpp_conn_is_secured")
    m = re.search(r"return\s+([^;]+);", sec)
    if not m:
        raise ExtractError("xmpp_conn_is_secured: return not found")
    secured_expr = _norm(m.group(1))
    est = fn_body(c, "conn_established")
    m = re.search(r"if\s*\(\s*conn_tls_start\s*\(\s*conn\s*\)\s*!=\s*0\s*\)\s*\{\s*(\w+)\s*\(\s*conn\s*\)\s*;\s*return\s*;", est)
    legacy_on_fail = m.group(1) if m else ""
    a = strip_comments(src("auth.c"))
    pr = fn_body(a, "_handle_proceedtls_default")
    m = re.search(r"if\s*\(\s*conn_tls_start\s*\(\s*conn\s*\)\s*==\s*0\s*\)\s*\{[^}]*\}\s*else\s*\{\s*(\w+)\s*\(\s*conn\s*\)\s*;\s*\}", pr, re.S)
    starttls_on_fail = m.group(1) if m else ""
    ev = strip_comments(src("event.c"))
    m = re.search(r"if\s*\(\s*conn->error\s*\)\s*\{[^}]*?conn->error\s*=\s*(\w+)\s*;\s*conn_disconnect\s*\(\s*conn\s*\)\s*;", ev, re.S)
    teardown_err = m.group(1) if m else ""
    teardown_val = getattr(errno, teardown_err, 0) if teardown_err else 0

    def b(x):
        return "true" if x else "false"

    write("Tls",
          "namespace Strophe.Gen.Tls\n\n"
          "/-- tls_new: `if (conn->tls_trust) SSL_set_verify(tls->ssl, A, B); else SSL_set_verify(tls->ssl, C, D);` -/\n"
          "def verifyModeTrustName : String := %s\n"
          "def verifyModeTrust : Nat := %d\n"
          "def callbackTrustName : String := %s\n"
          "def verifyModeDefaultName : String := %s\n"
          "def verifyModeDefault : Nat := %d\n"
          "def callbackDefaultName : String := %s\n"
          "/-- <openssl/ssl.h> -/\n"
          "def sslVerifyNone : Nat := %d\ndef sslVerifyPeer : Nat := %d\n"
          "/-- tls_new: argument of X509_VERIFY_PARAM_set_hostflags (names, value) -/\n"
          "def hostFlagNames : List String := [%s]\n"
          "def hostFlags : Nat := %d\n"
          "/-- <openssl/x509v3.h> X509_CHECK_FLAG_NO_PARTIAL_WILDCARDS, <openssl/x509_vfy.h> X509_V_ERR_HOSTNAME_MISMATCH -/\n"
          "def noPartialWildcards : Nat := %d\ndef errHostnameMismatch : Nat := %d\n"
          "/-- tls_new: X509_VERIFY_PARAM_set1_host(param, <expr>, <len>) and SSL_set_tlsext_host_name(tls->ssl, <expr>) -/\n"
          "def hostExpr : String := %s\ndef hostLenArg : String := %s\ndef sniExpr : String := %s\n"
          "/-- _tls_verify: result for preverify_ok == 1, result without a certfail handler, and whether the\n"
          "    handler's answer is returned unchanged -/\n"
          "def verifyRetPreverified : Int := %d\ndef verifyRetNoHandler : Int := %d\n"
          "def verifyReturnsHandlerAnswer : Bool := %s\n"
          "/-- tls_start: the returned expression -/\n"
          "def tlsStartReturn : String := %s\n"
          "/-- conn_tls_start: return codes (names, values from strophe.h) -/\n"
          "def rcDisabledName : String := %s\ndef rcDisabled : Int := %d\n"
          "def rcNewFailName : String := %s\ndef rcNewFail : Int := %d\n"
          "def rcStartFailName : String := %s\ndef rcStartFail : Int := %d\n"
          "def xmppEMem : Int := %d\ndef xmppEInvOp : Int := %d\ndef xmppEInt : Int := %d\n"
          "/-- conn_tls_start: `conn->secured = 1` stands in the branch taken when tls_start succeeded, and\n"
          "    nowhere else in conn.c (count of other assignments) -/\n"
          "def okBranchSetsSecured : Bool := %s\ndef securedSetElsewhere : Nat := %d\n"
          "/-- conn_tls_start, failure branch: tls_failed = 1, conn->intf = old_intf, tls_free + tls = NULL,\n"
          "    conn->error = tls_error(...) -/\n"
          "def failSetsTlsFailed : Bool := %s\ndef failRestoresInterface : Bool := %s\n"
          "def failFreesTls : Bool := %s\ndef failSetsError : Bool := %s\n"
          "/-- xmpp_connect_client refuses a JID whose domain part is empty / starts with a dot (condition as\n"
          "    written, what it returns) -/\n"
          "def connectDomainCheck : String := %s\n"
          "def connectRefusesEmptyDomain : Bool := %s\ndef connectRefusesDotDomain : Bool := %s\n"
          "def connectDomainRc : Int := %d\n"
          "/-- xmpp_conn_is_secured returns -/\n"
          "def isSecuredExpr : String := %s\n"
          "/-- what the callers do when conn_tls_start fails: conn_established (legacy SSL),\n"
          "    _handle_proceedtls_default (STARTTLS) -/\n"
          "def legacyOnFail : String := %s\ndef starttlsOnFail : String := %s\n"
          "/-- event.c write pass: `if (conn->error) { conn->error = E; conn_disconnect(conn); }` -/\n"
          "def teardownErrorName : String := %s\ndef teardownError : Int := %d\n\n"
          "end Strophe.Gen.Tls\n"
          % (_lean_str(mode_trust), modes[mode_trust], _lean_str(cb_trust),
             _lean_str(mode_default), modes[mode_default], _lean_str(cb_default),
             modes["SSL_VERIFY_NONE"], modes["SSL_VERIFY_PEER"],
             ", ".join(_lean_str(x) for x in hostflag_names), hostflags, no_partial, mismatch,
             _lean_str(host_expr), _lean_str(host_len), _lean_str(sni_expr),
             ret_preverified, ret_no_handler, b(answer_as_is), _lean_str(start_ret),
             _lean_str(rc_disabled), codes[rc_disabled], _lean_str(rc_new_fail), codes[rc_new_fail],
             _lean_str(rc_start_fail), codes[rc_start_fail],
             codes["XMPP_EMEM"], codes["XMPP_EINVOP"], codes["XMPP_EINT"],
             b(ok_sets_secured), secured_elsewhere,
             b(fail_sets_failed), b(fail_restores), b(fail_frees), b(fail_sets_error),
             _lean_str(dom_cond), b(refuses_empty), b(refuses_dot), dom_rc,
             _lean_str(secured_expr), _lean_str(legacy_on_fail), _lean_str(starttls_on_fail),
             _lean_str(teardown_err), teardown_val))


GENERATORS = [gen_tls]

FINGERPRINTS = {
    "tls_openssl.c": ["tls_new", "_tls_verify", "tls_start", "tls_error", "tls_free"],
    "conn.c": ["xmpp_connect_client", "conn_tls_start", "xmpp_conn_is_secured", "conn_established", "xmpp_conn_tls_start",
               "xmpp_conn_set_certfail_handler", "xmpp_conn_set_cafile", "xmpp_conn_set_capath"],
    "auth.c": ["_handle_proceedtls_default"],
}
