#!/usr/bin/env python3
"""C07: regenerate lean/Strophe/Gen/Sasl.lean from /repo/src/{sasl,scram,auth,rand}.c and strophe.h.

Extracted (data only; control flow is tied by the `sasl` correspondence engine):
  scram.c  SCRAM_Hi: size of `tmp[]`, the bytes of `int1[]`, the bound asserted on salt_len (if any);
           SCRAM_ClientKey: the HMAC label
  sasl.c   sasl_digest_md5: size of `cnonce[]`, the literal strings hashed/added ("AUTHENTICATE:",
           "xmpp/", the nc value, the default qop, the auth-int suffix), the order/quoting of the
           `_add_key` calls;  sasl_scram: the format strings
  auth.c   _make_scram_init_msg: size of `buf[]`, the nonce length handed to xmpp_rand_nonce, the
           three format strings; _auth_legacy: iq id; _handle_component_auth: format string
  rand.c   the hex table of rand_byte2hex
  strophe.h XMPP_NS_COMPONENT, XMPP_NS_AUTH, XMPP_NS_SASL
"""
import os
import re

from extract import src, strip_comments, write, ExtractError, fn_body_x as fn_body, REPO


def _cstr(s):
    return bytes(s, "utf-8").decode("unicode_escape").encode("latin-1")


def _channel_binding():
    """tls_openssl.c tls_init_channel_binding: which channel binding a -PLUS mechanism uses for which
    protocol version (RFC 5929 tls-unique = the first Finished message, up to TLS 1.2; RFC 9266
    tls-exporter for TLS 1.3).  The choice needs a live TLS session of each version to be observed,
    which no engine of the harness has: it is translated, and pinned by C07.pin_channel_binding."""
    t = strip_comments(src("tls_openssl.c"))
    fb = fn_body(t, "tls_init_channel_binding")
    sw = re.search(r"switch\s*\(\s*ssl_version\s*\)\s*\{(.*?)\n    \}", fb, re.S)
    if not sw:
        raise ExtractError("tls_init_channel_binding: switch over ssl_version not found")
    rows, names = [], []
    cur = {}
    for m in re.finditer(r'case\s+(\w+)\s*:|\*binding_prefix\s*=\s*"([^"]*)"\s*;|tls->channel_binding_size\s*=\s*(\d+)\s*;'
                         r'|label\s*=\s*"([^"]*)"\s*;|labellen\s*=\s*(\d+)\s*;|(break)\s*;|(default)\s*:', sw.group(1)):
        if m.group(1):
            names.append(m.group(1))
        elif m.group(2) is not None:
            cur["prefix"] = m.group(2)
        elif m.group(3):
            cur["size"] = int(m.group(3))
        elif m.group(4) is not None:
            cur["label"] = m.group(4)
        elif m.group(5):
            cur["labellen"] = int(m.group(5))
        elif m.group(6):
            for n in names:
                rows.append((n, cur.get("prefix", "?"), cur.get("size", 0), cur.get("label", ""), cur.get("labellen", 0)))
            names, cur = [], {}
        elif m.group(7):
            names, cur = [], {}
    if not rows:
        raise ExtractError("tls_init_channel_binding: no version cases found")
    flat = re.sub(r"\s+", "", fb)
    m = re.search(r"if\(([^(){};]*)\)\{size_tlen;if\(SSL_session_reused\(tls->ssl\)\)\{len=(\w+)\(tls->ssl,"
                  r"tls->channel_binding_data,tls->channel_binding_size\);\}else\{len=(\w+)\(tls->ssl,"
                  r"tls->channel_binding_data,tls->channel_binding_size\);\}", flat)
    cond, reused, fresh = m.groups() if m else ("?", "?", "?")
    exporter = bool(re.search(r"\}else\{if\(SSL_export_keying_material\(tls->ssl,tls->channel_binding_data,"
                              r"tls->channel_binding_size,label,labellen,NULL,0,0\)!=1\)", flat))
    out = "/-- tls_init_channel_binding: per `case` of the switch over SSL_version: binding name, size, exporter label, its length -/\n"
    out += "def cbCases : List (String × String × Nat × String × Nat) := [%s]\n" % ", ".join(
        '("%s", "%s", %d, "%s", %d)' % r for r in rows)
    out += "/-- condition under which the Finished message is used, the call for a resumed session, the call otherwise -/\n"
    out += 'def cbFinishedWhen : String × String × String := ("%s", "%s", "%s")\n' % (cond, reused, fresh)
    out += "/-- otherwise SSL_export_keying_material(ssl, data, size, label, labellen, NULL, 0, 0) -/\n"
    out += "def cbExporterElse : Bool := %s\n" % ("true" if exporter else "false")
    return out


def _lean_bytes(b):
    return "[" + ", ".join(str(x) for x in b) + "]"


def _need(m, what):
    if not m:
        raise ExtractError(what + " not found")
    return m


def _ns(text, name):
    m = _need(re.search(r"#\s*define\s+%s\s+\"([^\"]*)\"" % name, text), "strophe.h: " + name)
    return _cstr(m.group(1))


def gen_sasl():
    scram = strip_comments(src("scram.c"))
    sasl = strip_comments(src("sasl.c"))
    auth = strip_comments(src("auth.c"))
    rnd = strip_comments(src("rand.c"))
    with open(os.path.join(REPO, "strophe.h"), encoding="utf-8", errors="replace") as f:
        sh = f.read()

    hi = fn_body(scram, "SCRAM_Hi")
    m = re.search(r"uint8_t\s+tmp\s*\[\s*(\d+)\s*\]", hi)
    tmp_size = int(m.group(1)) if m else 0          # 0: no fixed-size copy of the salt any more
    m = _need(re.search(r"int1\s*\[\s*\]\s*=\s*\{([^}]*)\}", hi), "SCRAM_Hi: int1[]")
    int1 = [int(x.strip(), 0) for x in m.group(1).split(",") if x.strip()]
    hi_assert = bool(re.search(r"assert\s*\(\s*salt_len\s*<=\s*sizeof\s*\(\s*tmp\s*\)\s*-\s*sizeof\s*\(\s*int1\s*\)\s*\)", hi))
    ck = fn_body(scram, "SCRAM_ClientKey")
    m = _need(re.search(r'\(uint8_t\s*\*\)\s*"([^"]*)"', ck), "SCRAM_ClientKey: label")
    ck_label = _cstr(m.group(1))

    dg = fn_body(sasl, "sasl_digest_md5")
    m = _need(re.search(r"char\s+cnonce\s*\[\s*(\d+)\s*\]", dg), "sasl_digest_md5: cnonce[]")
    cnonce_buf = int(m.group(1))
    m = _need(re.search(r'"(AUTHENTICATE:)"\s*,\s*(\d+)', dg), "sasl_digest_md5: AUTHENTICATE")
    a2_prefix = _cstr(m.group(1))[: int(m.group(2))]
    m = _need(re.search(r'"(:0+)"\s*,\s*(\d+)', dg), "sasl_digest_md5: auth-int suffix")
    a2_suffix = _cstr(m.group(1))[: int(m.group(2))]
    m = _need(re.search(r'memcpy\s*\(\s*value\s*,\s*"([^"]*)"\s*,\s*(\d+)\s*\)', dg), "sasl_digest_md5: digest-uri prefix")
    uri_prefix = _cstr(m.group(1))[: int(m.group(2))]
    m = _need(re.search(r'hash_add\s*\(\s*table\s*,\s*"nc"\s*,\s*strophe_strdup\s*\(\s*ctx\s*,\s*"([^"]*)"', dg), "sasl_digest_md5: nc")
    nc = _cstr(m.group(1))
    m = _need(re.search(r'hash_add\s*\(\s*table\s*,\s*"qop"\s*,\s*strophe_strdup\s*\(\s*ctx\s*,\s*"([^"]*)"', dg), "sasl_digest_md5: default qop")
    qop_default = _cstr(m.group(1))
    m = _need(re.search(r'strcmp\s*\(\s*hash_get\s*\(\s*table\s*,\s*"qop"\s*\)\s*,\s*"([^"]*)"\s*\)\s*!=\s*0', dg), "sasl_digest_md5: qop test")
    qop_auth = _cstr(m.group(1))
    qop_forced = not re.search(r'if\s*\(\s*hash_get\s*\(\s*table\s*,\s*"qop"\s*\)\s*==\s*NULL\s*\)', dg)
    keys = re.findall(r'_add_key\s*\(\s*ctx\s*,\s*table\s*,\s*"([^"]*)"\s*,\s*result\s*,\s*([01])\s*\)', dg)
    if len(keys) < 8:
        raise ExtractError("sasl_digest_md5: _add_key sequence not found")
    charset_guarded = bool(re.search(r'if\s*\(\s*hash_get\s*\(\s*table\s*,\s*"charset"\s*\)\s*(!=\s*NULL\s*)?\)', dg))
    nonce_guarded = bool(re.search(r'hash_get\s*\(\s*table\s*,\s*"nonce"\s*\)\s*==\s*NULL|!\s*hash_get\s*\(\s*table\s*,\s*"nonce"\s*\)', dg))
    pd = fn_body(sasl, "_parse_digest_challenge")
    null_guarded = bool(re.search(r"if\s*\(\s*(msg\s*==\s*NULL|!\s*msg)\s*\)", pd)) or \
        bool(re.search(r"if\s*\(\s*(challenge\s*==\s*NULL|!\s*challenge)\s*\)", dg))

    sc = fn_body(sasl, "sasl_scram")
    fmts = re.findall(r'strophe_snprintf\s*\(\s*\w+\s*,\s*\w+\s*,\s*"([^"]*)"', sc)
    if len(fmts) < 2:
        raise ExtractError("sasl_scram: format strings not found")
    m = re.search(r"sval_len\s*>\s*([^)]+)\)", sc)
    scram_salt_max = None
    if m:
        e = m.group(1).strip()
        if re.fullmatch(r"\d+", e):
            scram_salt_max = int(e)

    mk = fn_body(auth, "_make_scram_init_msg")
    m = _need(re.search(r"char\s+buf\s*\[\s*(\d+)\s*\]", mk), "_make_scram_init_msg: buf[]")
    init_buf = int(m.group(1))
    m = _need(re.search(r"xmpp_rand_nonce\s*\(\s*ctx->rand\s*,\s*buf\s*,\s*(\d+)\s*\)", mk), "_make_scram_init_msg: nonce length")
    nonce_len = int(m.group(1))
    ifmts = re.findall(r'strophe_snprintf\s*\(\s*message\s*,\s*message_len\s*,\s*"([^"]*)"', mk)
    if len(ifmts) != 2:
        raise ExtractError("_make_scram_init_msg: format strings not found")
    escapes = bool(re.search(r"=\s*_scram_escape_name\s*\(\s*ctx\s*,\s*node\s*\)", mk))
    lg = fn_body(auth, "_auth_legacy")
    m = _need(re.search(r'xmpp_iq_new\s*\(\s*conn->ctx\s*,\s*"([^"]*)"\s*,\s*"([^"]*)"\s*\)', lg), "_auth_legacy: iq")
    iq_type, iq_id = _cstr(m.group(1)), _cstr(m.group(2))
    ca = fn_body(auth, "_handle_component_auth")
    m = _need(re.search(r'send_raw_string\s*\(\s*conn\s*,\s*"([^"]*)"', ca), "_handle_component_auth: format")
    hs_fmt = _cstr(m.group(1))
    m = _need(re.search(r'"(%02x)"', ca), "_handle_component_auth: %02x")

    hexb = fn_body(rnd, "rand_byte2hex")
    m = _need(re.search(r"hex_tbl\s*\[\s*16\s*\]\s*=\s*\{([^}]*)\}", hexb), "rand_byte2hex: hex_tbl")
    tbl = [ord(_cstr(x.strip().strip("'"))) for x in m.group(1).split(",") if x.strip()]
    if len(tbl) != 16:
        raise ExtractError("rand_byte2hex: table size")

    def d(name, doc, val):
        return "/-- %s -/\ndef %s := %s\n" % (doc, name, val)

    body = "namespace Strophe.Gen.Sasl\n\n"
    body += d("hiTmpSize : Nat", "scram.c SCRAM_Hi `uint8_t tmp[N]` (0: no such buffer)", tmp_size)
    body += d("hiInt1 : List UInt8", "SCRAM_Hi `int1[]`", _lean_bytes(int1))
    body += d("hiAssertsSaltLen : Bool", "SCRAM_Hi still contains `assert(salt_len <= sizeof(tmp) - sizeof(int1))`",
              "true" if hi_assert else "false")
    body += d("clientKeyLabel : List UInt8", "SCRAM_ClientKey HMAC text", _lean_bytes(ck_label))
    body += d("scramSaltMax : Option Nat", "sasl_scram: `sval_len > N` refusal (none: no such test)",
              "none" if scram_salt_max is None else "some %d" % scram_salt_max)
    body += d("scramFmtResponse : String", "sasl_scram first snprintf format", '"%s"' % fmts[0])
    body += d("scramFmtAuth : String", "sasl_scram second snprintf format", '"%s"' % fmts[1])
    body += d("digestCnonceBuf : Nat", "sasl.c sasl_digest_md5 `char cnonce[N]`", cnonce_buf)
    body += d("digestA2Prefix : List UInt8", "\"AUTHENTICATE:\"", _lean_bytes(a2_prefix))
    body += d("digestA2Suffix : List UInt8", "the auth-int/auth-conf suffix of A2", _lean_bytes(a2_suffix))
    body += d("digestUriPrefix : List UInt8", "\"xmpp/\"", _lean_bytes(uri_prefix))
    body += d("digestNc : List UInt8", "nc value", _lean_bytes(nc))
    body += d("digestQopDefault : List UInt8", "qop stored by the client", _lean_bytes(qop_default))
    body += d("digestQopAuth : List UInt8", "the value `qop` is compared with", _lean_bytes(qop_auth))
    body += d("digestQopForced : Bool", "is the client's qop stored unconditionally (not only when the challenge has none)?",
              "true" if qop_forced else "false")
    body += d("digestCharsetGuarded : Bool", "is `charset` only added to the reply when the challenge had one?",
              "true" if charset_guarded else "false")
    body += d("digestNonceGuarded : Bool", "does sasl_digest_md5 refuse a challenge without nonce?",
              "true" if nonce_guarded else "false")
    body += d("digestNullGuarded : Bool", "is a NULL challenge refused before strlen()?",
              "true" if null_guarded else "false")
    body += d("digestReplyKeys : List (List UInt8 × Bool)", "the `_add_key` calls in order: key, quote flag",
              "[" + ", ".join("(%s, %s)" % (_lean_bytes(_cstr(k)), "true" if q == "1" else "false") for k, q in keys) + "]")
    body += d("scramInitBuf : Nat", "auth.c _make_scram_init_msg `char buf[N]`", init_buf)
    body += d("scramNonceLen : Nat", "length handed to xmpp_rand_nonce in _make_scram_init_msg", nonce_len)
    body += d("scramInitFmtPlus : String", "client-first format, -PLUS", '"%s"' % ifmts[0])
    body += d("scramInitFmtPlain : String", "client-first format, no channel binding", '"%s"' % ifmts[1])
    body += d("scramEscapesName : Bool", "does _make_scram_init_msg pass the node through _scram_escape_name (RFC 5802 =2C / =3D)?",
              "true" if escapes else "false")
    body += d("legacyIqType : List UInt8", "_auth_legacy iq type", _lean_bytes(iq_type))
    body += d("legacyIqId : List UInt8", "_auth_legacy iq id", _lean_bytes(iq_id))
    body += d("handshakeFmt : String", "_handle_component_auth send_raw_string format", '"%s"' % hs_fmt.decode("latin-1"))
    parts = hs_fmt.split(b"%s")
    if len(parts) != 3:
        raise ExtractError("_handle_component_auth: format is not <text>%s<text>%s<text>")
    body += d("handshakeParts : List (List UInt8)", "the literal text around the two %s of that format",
              "[" + ", ".join(_lean_bytes(x) for x in parts) + "]")
    body += d("nsComponent : List UInt8", "XMPP_NS_COMPONENT", _lean_bytes(_ns(sh, "XMPP_NS_COMPONENT")))
    body += d("nsAuth : List UInt8", "XMPP_NS_AUTH", _lean_bytes(_ns(sh, "XMPP_NS_AUTH")))
    body += d("nsSasl : List UInt8", "XMPP_NS_SASL", _lean_bytes(_ns(sh, "XMPP_NS_SASL")))
    body += d("randHexTbl : List UInt8", "rand.c rand_byte2hex hex_tbl", _lean_bytes(tbl))
    body += _channel_binding()
    body += "\nend Strophe.Gen.Sasl\n"
    write("Sasl", body)


GENERATORS = [gen_sasl]

FINGERPRINTS = {
    "sasl.c": ["sasl_plain", "_make_string", "_make_quoted", "_parse_digest_challenge", "_digest_to_hex",
               "_add_key", "sasl_digest_md5", "sasl_scram"],
    "scram.c": ["crypto_HMAC_parts", "SCRAM_Hi", "SCRAM_ClientKey", "SCRAM_ClientSignature", "SCRAM_ClientProof"],
    "auth.c": ["_scram_escape_name", "_make_scram_init_msg", "_handle_scram_challenge", "_handle_digestmd5_challenge",
               "_auth_legacy", "_handle_component_auth", "_get_authid"],
    "rand.c": ["xmpp_rand_nonce", "rand_byte2hex"],
    "jid.c": ["xmpp_jid_node", "xmpp_jid_domain", "xmpp_jid_resource"],
}
