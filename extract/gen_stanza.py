#!/usr/bin/env python3
"""C09: regenerate lean/Strophe/Gen/Stanza.lean from /repo/src/stanza.c, /repo/src/hash.c and /repo/strophe.h.

Extracted (data only):
  * the `_escape_xml` case table (byte -> replacement), checked to be the same in the length pass and in the
    copy pass of the function;
  * the size of the first rendering buffer of xmpp_stanza_to_text (`length = 1024`);
  * the bucket count passed to hash_new by xmpp_stanza_set_attribute, and the shift constants of `_hash_key`;
  * the namespace strings XMPP_NS_CLIENT / XMPP_NS_STANZAS_IETF / XMPP_NS_STREAMS_IETF and the error codes
    XMPP_EOK / XMPP_EMEM / XMPP_EINVOP / XMPP_EINT of strophe.h;
  * the stream-error condition table of xmpp_error_new: enum order of xmpp_error_type_t in strophe.h, the
    name each `case XMPP_SE_…` sets, and the name of the `default:` branch;
  * the literal element / attribute names used by xmpp_stanza_reply and xmpp_stanza_reply_error.
"""
import os
import re

from extract import src, strip_comments, write, ExtractError, fn_body, REPO


def _c_string(lit):
    return bytes(lit, "utf-8").decode("unicode_escape").encode("latin-1")


def _lean_bytes(b):
    return "[" + ", ".join(str(x) for x in b) + "]"


def _header():
    with open(os.path.join(REPO, "strophe.h"), encoding="utf-8", errors="replace") as f:
        return strip_comments(f.read())


def _define_str(text, name):
    m = re.search(r"#\s*define\s+" + re.escape(name) + r'\s+"((?:\\.|[^"\\])*)"', text)
    if not m:
        raise ExtractError("#define %s \"…\" not found" % name)
    return _c_string(m.group(1))


def _define_int(text, name):
    m = re.search(r"#\s*define\s+" + re.escape(name) + r"\s+\(?\s*(-?\d+)\s*\)?", text)
    if not m:
        raise ExtractError("#define %s not found" % name)
    return int(m.group(1))


def _escape_table_via_helper(stanza, body):
    """second spelling: both passes ask a static helper `const char *f(char c)` for the replacement
    (`if (c == 'x') return "…";` chain or `case 'x': return "…";`, NULL otherwise), the length pass
    adds strlen of it or 1, the copy pass copies strlen bytes of it or the character itself"""
    for m in re.finditer(r"\bstatic\s+const\s+char\s*\*\s*(\w+)\s*\(\s*(?:const\s+)?char\s+(\w+)\s*\)\s*\{", stanza):
        f, c = m.group(1), m.group(2)
        calls = re.findall(r"(\w+)\s*=\s*%s\s*\(\s*\*src\s*\)" % re.escape(f), body)
        if len(calls) != 2 or calls[0] != calls[1]:
            continue
        e = calls[0]
        fb = fn_body(stanza, f)
        inner = re.sub(r"\s+", " ", fb[fb.index("{") + 1:fb.rindex("}")]).strip()
        pairs = re.findall(r"(?:if \( ?%s == '(\\?.)' ?\)|case '(\\?.)' ?:) return \"((?:\\.|[^\"\\])*)\" ?;" % re.escape(c), inner)
        rest = re.sub(r"(?:else )?(?:if \( ?%s == '(\\?.)' ?\)|case '(\\?.)' ?:) return \"((?:\\.|[^\"\\])*)\" ?;" % re.escape(c), "", inner)
        rest = re.sub(r"switch \( ?%s ?\) \{|default ?:|\}|else" % re.escape(c), "", rest).strip()
        if not pairs or rest != "return NULL;":
            continue
        b = re.sub(r"\s+", "", body)
        lenpass = re.search(r"len\+=%s(!=NULL)?\?strlen\(%s\):1;" % (e, e), b)
        copypass = re.search(r"if\(%s(!=NULL)?\)\{(\w+)=strlen\(%s\);memcpy\(dst,%s,\2\);dst\+=\2;\}else\{\*dst=\*src;dst\+\+;\}" % (e, e, e), b)
        if not lenpass or not copypass:
            continue
        return sorted((_c_string(a or a2)[0], _c_string(r)) for a, a2, r in pairs)
    raise ExtractError("_escape_xml: no replacement cases found")


def _escape_table(stanza):
    body = fn_body(stanza, "_escape_xml")
    loops = body.split("for (")
    if len(loops) != 3:
        raise ExtractError("_escape_xml: expected two passes over the input")
    # pass 1: case 'c': … len += n;
    lens = {}
    pending = []
    for m in re.finditer(r"case\s+'(\\?.)'\s*:|len\s*\+=\s*(\d+)\s*;|default\s*:", loops[1]):
        if m.group(1):
            pending.append(_c_string(m.group(1))[0])
        elif m.group(2):
            for c in pending:
                lens[c] = int(m.group(2))
            pending = []
        else:
            pending = []
    # pass 2: case 'c': strcpy(dst, "…"); dst += n;
    table = {}
    for m in re.finditer(r"case\s+'(\\?.)'\s*:\s*strcpy\s*\(\s*dst\s*,\s*\"((?:\\.|[^\"\\])*)\"\s*\)\s*;\s*dst\s*\+=\s*(\d+)\s*;",
                         loops[2]):
        c = _c_string(m.group(1))[0]
        rep = _c_string(m.group(2))
        if int(m.group(3)) != len(rep):
            raise ExtractError("_escape_xml: dst advances by %s after writing %r" % (m.group(3), rep))
        table[c] = rep
    if not table:
        return _escape_table_via_helper(stanza, body)
    if set(lens) != set(table) or any(lens[c] != len(table[c]) for c in table):
        raise ExtractError("_escape_xml: length pass %r and copy pass %r disagree"
                           % (lens, {k: len(v) for k, v in table.items()}))
    if not re.search(r"default\s*:\s*\*dst\s*=\s*\*src\s*;", loops[2]):
        raise ExtractError("_escape_xml: default branch is not a plain copy")
    return sorted(table.items())


def _se_table(stanza, header):
    m = re.search(r"typedef\s+enum\s*\{([^}]*)\}\s*xmpp_error_type_t\s*;", header)
    if not m:
        raise ExtractError("enum xmpp_error_type_t not found")
    enum = []
    for tok in m.group(1).split(","):
        tok = tok.strip()
        if not tok:
            continue
        if "=" in tok:
            raise ExtractError("xmpp_error_type_t has explicit values; extractor must be extended")
        enum.append(tok)
    body = fn_body(stanza, "xmpp_error_new")
    cases = dict(re.findall(r"case\s+(XMPP_SE_\w+)\s*:\s*xmpp_stanza_set_name\s*\(\s*error_type\s*,\s*\"([^\"]*)\"\s*\)\s*;\s*break\s*;",
                            body))
    d = re.search(r"default\s*:\s*xmpp_stanza_set_name\s*\(\s*error_type\s*,\s*\"([^\"]*)\"\s*\)", body)
    if not d:
        raise ExtractError("xmpp_error_new: default branch not found")
    names = []
    for e in enum:
        names.append(cases.get(e, d.group(1)))
    if set(cases) - set(enum):
        raise ExtractError("xmpp_error_new: cases %r are not members of the enum" % sorted(set(cases) - set(enum)))
    top = re.search(r'_stanza_new_with_attrs\s*\(\s*ctx\s*,\s*"([^"]*)"', body)
    ns = re.search(r"xmpp_stanza_set_ns\s*\(\s*error_type\s*,\s*(\w+)\s*\)", body)
    if not top or not ns or ns.group(1) != "XMPP_NS_STREAMS_IETF":
        raise ExtractError("xmpp_error_new: outer element / namespace not recognised")
    return enum, names, d.group(1), top.group(1)


def gen_stanza():
    stanza = strip_comments(src("stanza.c"))
    hashc = strip_comments(src("hash.c"))
    header = _header()

    esc = _escape_table(stanza)

    body = fn_body(stanza, "xmpp_stanza_to_text")
    m = re.search(r"length\s*=\s*(\d+|[A-Za-z_]\w*)\s*;", body)
    if not m:
        raise ExtractError("xmpp_stanza_to_text: initial buffer length not found")
    if m.group(1).isdigit():
        first_buf = int(m.group(1))
    else:
        # a named constant: `#define NAME 4096`, `enum { NAME = 4096 }` or `static const … NAME = 4096;`
        d = re.search(r"(?:#\s*define\s+%s\s+|\b%s\s*=\s*)\(?\s*(\d+)" % (m.group(1), m.group(1)), stanza)
        if not d:
            raise ExtractError("xmpp_stanza_to_text: value of %s not found" % m.group(1))
        first_buf = int(d.group(1))

    body = fn_body(stanza, "xmpp_stanza_set_attribute")
    m = re.search(r"hash_new\s*\(\s*stanza->ctx\s*,\s*(\d+)\s*,", body)
    if not m:
        raise ExtractError("xmpp_stanza_set_attribute: hash_new size not found")
    buckets = int(m.group(1))

    body = fn_body(hashc, "_hash_key")
    m1 = re.search(r"shift\s*\+=\s*(\d+)\s*;", body)
    m2 = re.search(r"if\s*\(\s*shift\s*>\s*(\d+)\s*\)\s*shift\s*=\s*0\s*;", body)
    if not m1 or not m2 or not re.search(r"hash\s*\^=\s*\(\s*\(unsigned\)\s*\*c\+\+\s*<<\s*shift\s*\)", body):
        raise ExtractError("_hash_key: shape not recognised")
    step, limit = int(m1.group(1)), int(m2.group(1))

    enum, names, dflt, outer = _se_table(stanza, header)

    body = fn_body(stanza, "xmpp_stanza_reply")
    dels = re.findall(r'xmpp_stanza_del_attribute\s*\(\s*copy\s*,\s*"([^"]*)"\s*\)', body)
    body = fn_body(stanza, "xmpp_stanza_reply_error")
    lits = re.findall(r'xmpp_stanza_set_(?:name|type)\s*\(\s*\w+\s*,\s*"([^"]*)"\s*\)', body)
    if dels != ["to", "from", "xmlns"] or lits != ["error", "error", "text"]:
        raise ExtractError("reply helpers: literals changed: %r %r" % (dels, lits))
    if len(re.findall(r"xmpp_stanza_set_ns\s*\(\s*item\s*,\s*XMPP_NS_STANZAS_IETF\s*\)", body)) != 2:
        raise ExtractError("xmpp_stanza_reply_error: namespace of condition/text elements changed")

    out = ["namespace Strophe.Gen.Stanza", ""]
    out.append("/-- `_escape_xml` of src/stanza.c: (byte, replacement) for every `case`; all other bytes are copied -/")
    out.append("def escapeTable : List (Nat × List Nat) := [" +
               ", ".join("(%d, %s)" % (c, _lean_bytes(r)) for c, r in esc) + "]")
    out.append("/-- xmpp_stanza_to_text: size of the first buffer -/")
    out.append("def firstBuf : Nat := %d" % first_buf)
    out.append("/-- xmpp_stanza_set_attribute: bucket count of the attribute table -/")
    out.append("def attrBuckets : Nat := %d" % buckets)
    out.append("/-- hash.c `_hash_key`: `shift += step; if (shift > limit) shift = 0;` -/")
    out.append("def hashShiftStep : Nat := %d" % step)
    out.append("def hashShiftLimit : Nat := %d" % limit)
    for lean, cname in (("nsClient", "XMPP_NS_CLIENT"), ("nsStanzas", "XMPP_NS_STANZAS_IETF"),
                        ("nsStreams", "XMPP_NS_STREAMS_IETF")):
        out.append("/-- strophe.h %s -/" % cname)
        out.append("def %s : List Nat := %s" % (lean, _lean_bytes(_define_str(header, cname))))
    for lean, cname in (("eOk", "XMPP_EOK"), ("eMem", "XMPP_EMEM"), ("eInvOp", "XMPP_EINVOP"), ("eInt", "XMPP_EINT")):
        out.append("/-- strophe.h %s -/" % cname)
        out.append("def %s : Int := %d" % (lean, _define_int(header, cname)))
    out.append("/-- xmpp_error_new: condition element name per xmpp_error_type_t value (enum order of strophe.h:")
    out.append("    %s) -/" % ", ".join(enum))
    out.append("def streamErrorNames : List (List Nat) := [\n" +
               ",\n".join("  %s  -- %s" % (_lean_bytes(n.encode()), n) for n in names[:-1]) +
               ("\n  %s  -- %s\n]" % (_lean_bytes(names[-1].encode()), names[-1])))
    out[-1] = out[-1].replace(",\n", "\n").replace("]  --", "],  --")
    out.append("/-- xmpp_error_new: `default:` branch (%s) -/" % dflt)
    out.append("def streamErrorDefault : List Nat := %s" % _lean_bytes(dflt.encode()))
    out.append("/-- xmpp_error_new: name of the outer element (%s) -/" % outer)
    out.append("def streamErrorElement : List Nat := %s" % _lean_bytes(outer.encode()))
    out.append("")
    out.append("end Strophe.Gen.Stanza")
    write("Stanza", "\n".join(out) + "\n")


GENERATORS = [gen_stanza]

FINGERPRINTS = {
    "stanza.c": ["_escape_xml", "_render_update", "_render_stanza_recursive", "xmpp_stanza_to_text",
                 "xmpp_stanza_copy", "_stanza_copy_attributes", "xmpp_stanza_set_name", "xmpp_stanza_set_text",
                 "xmpp_stanza_set_text_with_size", "xmpp_stanza_set_attribute", "xmpp_stanza_del_attribute",
                 "xmpp_stanza_get_attribute", "xmpp_stanza_get_attributes", "xmpp_stanza_add_child_ex",
                 "xmpp_stanza_reply", "xmpp_stanza_reply_error", "xmpp_error_new", "xmpp_stanza_new_from_string"],
    "hash.c": ["hash_new", "_hash_key", "_hash_entry_find", "hash_add", "hash_get", "hash_drop", "hash_iter_next"],
    "parser_expat.c": ["_start_element", "_end_element", "_characters", "_set_attributes", "complete_inner_text"],
}
