#!/usr/bin/env python3
"""C14: regenerate lean/Strophe/Gen/Disc.lean from /repo (conn.c, common.h, event.c, strophe.h).

Extracted: CONNECT_TIMEOUT and that it is what xmpp_conn_new() stores in connect_timeout; the three
default ports, resolved through the *shape* of _conn_default_port (which enum constant is returned
for client / legacy-SSL client / component); the return codes XMPP_EMEM/EINVOP/EINT; the flag bits
the discovery path looks at.  The comparison used by the CONNECTING branch of xmpp_run_once
(`elapsed <= connect_timeout` keeps waiting, i.e. the attempt is given up when elapsed > timeout)
and the error stored by the give-up path are checked structurally: if the code no longer has that
shape the extractor raises ExtractError (broken tie) instead of silently emitting constants for a
model that no longer applies.
"""
import os
import re

from extract import src, strip_comments, write, ExtractError, fn_body_x as fn_body, define, REPO


def _enum_value(text, name):
    m = re.search(r"\b" + re.escape(name) + r"\s*=\s*(-?\w+)", text)
    if not m:
        raise ExtractError("enum constant %s not found" % name)
    return int(m.group(1), 0)


def _public_header():
    with open(os.path.join(REPO, "strophe.h"), encoding="utf-8", errors="replace") as f:
        return strip_comments(f.read())


def _flag(text, name):
    m = re.search(r"#\s*define\s+" + re.escape(name) + r"\s+\(\s*1UL\s*<<\s*(\d+)\s*\)", text)
    if not m:
        raise ExtractError("#define %s (1UL << n) not found" % name)
    return 1 << int(m.group(1))


def gen_disc():
    conn = strip_comments(src("conn.c"))
    common = strip_comments(src("common.h"))
    event = strip_comments(src("event.c"))
    pub = _public_header()

    timeout = define(conn, "CONNECT_TIMEOUT")
    if not re.search(r"conn->connect_timeout\s*=\s*CONNECT_TIMEOUT\s*;", fn_body(conn, "xmpp_conn_new")):
        raise ExtractError("xmpp_conn_new no longer stores CONNECT_TIMEOUT in connect_timeout")

    body = re.sub(r"\s+", " ", fn_body(conn, "_conn_default_port"))
    m = re.search(r"case XMPP_CLIENT: return conn->tls_legacy_ssl \? (\w+) : (\w+); "
                  r"case XMPP_COMPONENT: return (\w+); default: return 0;", body)
    if not m:
        raise ExtractError("_conn_default_port has an unexpected shape")
    legacy, client, component = (_enum_value(common, n) for n in m.groups())

    run_once = re.sub(r"\s+", " ", fn_body(event, "xmpp_run_once"))
    if not re.search(r"if \(time_elapsed\(conn->timeout_stamp, time_stamp\(\)\) <= conn->connect_timeout\) "
                     r"FD_SET\(conn->sock, &wfds\); else \{", run_once):
        raise ExtractError("xmpp_run_once: CONNECTING timeout test is not `elapsed <= connect_timeout`")
    if not re.search(r"ret = _connect_next\(conn\); if \(ret != 0\) \{ conn->error = ETIMEDOUT; "
                     r"conn_disconnect\(conn\); \}", run_once):
        raise ExtractError("xmpp_run_once: timeout give-up path changed")
    if not re.search(r"ret = _connect_next\(conn\); if \(ret != 0\) \{ conn->error = ret; "
                     r"conn_disconnect\(conn\); \} break;", run_once):
        raise ExtractError("xmpp_run_once: connect-error give-up path changed")
    nxt = re.sub(r"\s+", " ", fn_body(event, "_connect_next"))
    if "if (conn->sock == INVALID_SOCKET) return -1;" not in nxt:
        raise ExtractError("_connect_next: failure value is not -1")

    emem, einvop, eint = (define(pub, n) for n in ("XMPP_EMEM", "XMPP_EINVOP", "XMPP_EINT"))
    write("Disc",
          "namespace Strophe.Gen.Disc\n\n"
          "/-- src/conn.c CONNECT_TIMEOUT (ms), stored in conn->connect_timeout by xmpp_conn_new; an attempt is\n"
          "    abandoned by xmpp_run_once when `elapsed > connectTimeout` -/\n"
          "def connectTimeout : Nat := %d\n"
          "/-- src/conn.c _conn_default_port: XMPP_CLIENT without / with tls_legacy_ssl, XMPP_COMPONENT -/\n"
          "def portClient : Nat := %d\n"
          "def portClientLegacySsl : Nat := %d\n"
          "def portComponent : Nat := %d\n"
          "/-- strophe.h return codes (negated: the C values are -n) -/\n"
          "def negEMEM : Nat := %d\n"
          "def negEINVOP : Nat := %d\n"
          "def negEINT : Nat := %d\n"
          "/-- the error handed to the DISCONNECT notification when _connect_next fails after a connect error\n"
          "    (`conn->error = ret` with ret = -1), negated -/\n"
          "def negConnectNextFail : Nat := 1\n"
          "/-- strophe.h flag bits -/\n"
          "def flagDisableTls : Nat := %d\n"
          "def flagMandatoryTls : Nat := %d\n"
          "def flagLegacySsl : Nat := %d\n"
          "def flagTrustTls : Nat := %d\n\n"
          "end Strophe.Gen.Disc\n"
          % (timeout, client, legacy, component, -emem, -einvop, -eint,
             _flag(pub, "XMPP_CONN_FLAG_DISABLE_TLS"), _flag(pub, "XMPP_CONN_FLAG_MANDATORY_TLS"),
             _flag(pub, "XMPP_CONN_FLAG_LEGACY_SSL"), _flag(pub, "XMPP_CONN_FLAG_TRUST_TLS")))


GENERATORS = [gen_disc]

FINGERPRINTS = {
    "sock.c": ["sock_new", "sock_getaddrinfo", "sock_connect", "sock_connect_error"],
    "event.c": ["_connect_next", "xmpp_run_once"],
    "conn.c": ["xmpp_connect_client", "xmpp_connect_component", "xmpp_connect_raw", "_conn_connect",
               "_conn_default_port", "conn_established", "conn_disconnect"],
    "resolver.c": ["resolver_srv_lookup", "resolver_srv_rr_new"],
}
