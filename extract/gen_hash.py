#!/usr/bin/env python3
"""C17: regenerate lean/Strophe/Gen/HashConsts.lean from /repo/src/{sha1,sha256,sha512,md5,scram}.c.

Extracted: the initial state words of the four digests, the SHA-1 round constants and the
macro (R0..R4) used for each of the 80 rounds, the 64 SHA-256 K constants (last argument of
the RND(...) lines), the 80 SHA-512 K constants (table K[80]), the MD5 per-step round
function / data index / additive constant / shift (MD5STEP lines), HMAC ipad/opad and the
block-size rule of crypto_HMAC.

Beyond the numbers, the *shape* of the unrolled round sequences is checked (register
rotation pattern, round index order), because the Lean model replaces the unrolled code by a
fold that rotates the registers after every round.  Anything that cannot be found, or does
not have the expected shape, raises ExtractError.
"""
import re

from extract import src, strip_comments, write, ExtractError, lean_list, fn_body, expr_def, bool_table


# control-flow fingerprints of the functions the Lean model mirrors by hand (picked up by
# extract._collect_plugins): a change of any of them is reported as a changed tie
FINGERPRINTS = {
    "sha1.c": ["SHA1_Transform", "crypto_SHA1_Init", "crypto_SHA1_Update", "crypto_SHA1_Final",
               "crypto_SHA1", "host_to_be"],
    "sha256.c": ["sha256_compress", "sha256_init", "sha256_process", "sha256_done", "sha256_hash"],
    "sha512.c": ["sha512_compress", "sha512_init", "sha512_process", "sha512_done", "sha512_hash"],
    "md5.c": ["MD5Transform", "MD5Init", "MD5Update", "MD5Final"],
    "scram.c": ["crypto_HMAC", "crypto_HMAC_parts"],
    "crypto.c": ["digest_to_string", "digest_to_string_alloc", "xmpp_sha1", "xmpp_sha1_digest",
                 "xmpp_sha1_new", "xmpp_sha1_update", "xmpp_sha1_final", "xmpp_sha1_to_string",
                 "xmpp_sha1_to_string_alloc", "xmpp_sha1_to_digest"],
}


def _hex_list(vals, per=8, width=8):
    lines = []
    for i in range(0, len(vals), per):
        lines.append("  " + ", ".join("0x%0*x" % (width, v) for v in vals[i:i + per]))
    return "[\n" + ",\n".join(lines) + "]"


def _int(tok):
    tok = tok.strip()
    m = re.fullmatch(r"CONST64\(\s*(\w+)\s*\)", tok)
    if m:
        tok = m.group(1)
    tok = re.sub(r"(?i)(ull|ul|u|l|ll)$", "", tok)
    try:
        return int(tok, 0)
    except ValueError:
        raise ExtractError("cannot read integer %r" % tok)


def _state_words(body, arr, n, what):
    """`arr[i] = <const>;` for i = 0..n-1 inside a function body"""
    out = []
    for i in range(n):
        m = re.search(r"->\s*" + arr + r"\s*\[\s*%d\s*\]\s*=\s*([^;]+);" % i, body)
        if not m:
            raise ExtractError("%s: initial value of %s[%d] not found" % (what, arr, i))
        out.append(_int(m.group(1)))
    return out


def _rot(regs, k):
    """register list rotated right by k: a,b,c,d,e -> e,a,b,c,d"""
    k %= len(regs)
    return regs[-k:] + regs[:-k] if k else list(regs)


# ------------------------------------------------------------------ SHA-1

def _sha1():
    text = strip_comments(src("sha1.c"))
    init = fn_body(text, "crypto_SHA1_Init")
    iv = _state_words(init, "state", 5, "crypto_SHA1_Init")
    if not re.search(r"count\s*\[\s*0\s*\]\s*=\s*context\s*->\s*count\s*\[\s*1\s*\]\s*=\s*0", init):
        raise ExtractError("crypto_SHA1_Init: count[0] = count[1] = 0 not found")

    # round macros R0..R4: boolean function shape and additive constant
    # the Boolean functions are compared by truth table: any equivalent spelling is the same function
    shapes = {
        "ch": bool_table("(w&x)|(~w&y)", ["w", "x", "y"]),
        "parity": bool_table("w^x^y", ["w", "x", "y"]),
        "maj": bool_table("(w&x)|(w&y)|(x&y)", ["w", "x", "y"]),
    }
    expect_shape = {0: "ch", 1: "ch", 2: "parity", 3: "maj", 4: "parity"}
    expect_blk = {0: "blk0", 1: "blk", 2: "blk", 3: "blk", 4: "blk"}
    macro_k = []
    for r in range(5):
        m = re.search(r"#\s*define\s+R%d\s*\(\s*v\s*,\s*w\s*,\s*x\s*,\s*y\s*,\s*z\s*,\s*i\s*\)((?:[^\n]*\\\n)*[^\n]*)" % r,
                      text)
        if not m:
            raise ExtractError("sha1.c: macro R%d not found" % r)
        body = re.sub(r"[\s\\]+", "", m.group(1))
        mm = re.fullmatch(r"z\+=(.+?)\+(blk0|blk)\(i\)\+(0x[0-9A-Fa-f]+)\+rol\(v,5\);w=rol\(w,30\);", body)
        if not mm:
            raise ExtractError("sha1.c: macro R%d has an unexpected shape: %s" % (r, body))
        if bool_table(mm.group(1), ["w", "x", "y"]) != shapes[expect_shape[r]]:
            raise ExtractError("sha1.c: macro R%d boolean function changed: %s" % (r, mm.group(1)))
        if mm.group(2) != expect_blk[r]:
            raise ExtractError("sha1.c: macro R%d uses %s" % (r, mm.group(2)))
        macro_k.append(int(mm.group(3), 16))
    # message schedule macro
    blk = re.search(r"#\s*define\s+blk\(i\)((?:[^\n]*\\\n)*[^\n]*)", text)
    if not blk:
        raise ExtractError("sha1.c: macro blk not found")
    b = re.sub(r"[\s\\]+", "", blk.group(1))
    if b != ("(block->l[i&15]=rol(block->l[(i+13)&15]^block->l[(i+8)&15]^"
             "block->l[(i+2)&15]^block->l[i&15],1))"):
        raise ExtractError("sha1.c: macro blk changed: " + b)
    if not re.search(r"#\s*define\s+rol\(value,\s*bits\)\s*\(\(\(value\)\s*<<\s*\(bits\)\)\s*\|\s*"
                     r"\(\(value\)\s*>>\s*\(32\s*-\s*\(bits\)\)\)\)", text):
        raise ExtractError("sha1.c: macro rol changed")

    tr = fn_body(text, "SHA1_Transform")
    calls = re.findall(r"\bR([0-4])\s*\(\s*([a-e])\s*,\s*([a-e])\s*,\s*([a-e])\s*,\s*([a-e])\s*,"
                       r"\s*([a-e])\s*,\s*(\d+)\s*\)", tr)
    if len(calls) != 80:
        raise ExtractError("SHA1_Transform: expected 80 round invocations, found %d" % len(calls))
    kinds = []
    for n, c in enumerate(calls):
        regs = list(c[1:6])
        if int(c[6]) != n:
            raise ExtractError("SHA1_Transform: round %d has index %s" % (n, c[6]))
        if regs != _rot(list("abcde"), n):
            raise ExtractError("SHA1_Transform: round %d register order %s" % (n, "".join(regs)))
        kinds.append(int(c[0]))
    for n, k in enumerate(kinds):
        if k == 0 and n >= 16:
            raise ExtractError("SHA1_Transform: blk0 used in round %d" % n)
        if k != 0 and n < 16:
            raise ExtractError("SHA1_Transform: round %d does not load the block word" % n)
    for i, r in enumerate("abcde"):
        if not re.search(r"state\s*\[\s*%d\s*\]\s*\+=\s*%s\s*;" % (i, r), tr):
            raise ExtractError("SHA1_Transform: feedback of state[%d] not found" % i)
    return iv, macro_k, kinds


# ------------------------------------------------------------------ SHA-256 / SHA-512

_SIGMAS = {
    "sha256.c": {"Sigma0": (2, 13, 22), "Sigma1": (6, 11, 25), "Gamma0": (7, 18, 3), "Gamma1": (17, 19, 10)},
    "sha512.c": {"Sigma0": (28, 34, 39), "Sigma1": (14, 18, 41), "Gamma0": (1, 8, 7), "Gamma1": (19, 61, 6)},
}


def _sigmas(fname, text):
    """rotation / shift amounts of the four sigma functions, written as macros or as static inline
    functions"""
    out = {}
    for name, last in (("Sigma0", "S"), ("Sigma1", "S"), ("Gamma0", "R"), ("Gamma1", "R")):
        d = expr_def(text, name)
        m = d and d[0] == ["x"] and re.fullmatch(r"S\(x,(\d+)\)\^S\(x,(\d+)\)\^%s\(x,(\d+)\)" % last, d[1])
        if not m:
            raise ExtractError("%s: %s not found (macro or static inline function)" % (fname, name))
        out[name] = tuple(int(g) for g in m.groups())
    return out


def _sha2_common(fname, text, compress, nrounds):
    for nm, ref in (("Ch", "(x&y)|(~x&z)"), ("Maj", "(x&y)|(x&z)|(y&z)")):
        d = expr_def(text, nm)
        if not d or len(d[0]) != 3 or bool_table(d[1], d[0]) != bool_table(ref, ["x", "y", "z"]):
            raise ExtractError(fname + ": " + nm + " changed")
    body = fn_body(text, compress)
    b = re.sub(r"\s+", "", body)
    if ("W[i]=Gamma1(W[i-2])+W[i-7]+Gamma0(W[i-15])+W[i-16];" not in b
            or "for(i=16;i<%d;i++)" % nrounds not in b):
        raise ExtractError(compress + ": message schedule changed")
    return body


def _sha256():
    fname = "sha256.c"
    text = strip_comments(src(fname))
    iv = _state_words(fn_body(text, "sha256_init"), "state", 8, "sha256_init")
    body = _sha2_common(fname, text, "sha256_compress", 64)
    b = re.sub(r"[\s\\]+", "", body)
    if ("#defineRND(a,b,c,d,e,f,g,h,i,ki)t0=h+Sigma1(e)+Ch(e,f,g)+ki+W[i];"
            "t1=Sigma0(a)+Maj(a,b,c);d+=t0;h=t0+t1;") not in b:
        raise ExtractError("sha256_compress: RND macro changed")
    calls = re.findall(r"\bRND\s*\(\s*" + r"\s*,\s*".join([r"S\[(\d)\]"] * 8) +
                       r"\s*,\s*(\d+)\s*,\s*(0x[0-9A-Fa-f]+)\s*\)", body)
    if len(calls) != 64:
        raise ExtractError("sha256_compress: expected 64 RND lines, found %d" % len(calls))
    ks = []
    for n, c in enumerate(calls):
        regs = [int(x) for x in c[:8]]
        if int(c[8]) != n:
            raise ExtractError("sha256_compress: RND line %d has index %s" % (n, c[8]))
        if regs != _rot(list(range(8)), n):
            raise ExtractError("sha256_compress: RND line %d register order %s" % (n, regs))
        ks.append(int(c[9], 16))
    return iv, ks, _sigmas(fname, text)


def _sha512():
    fname = "sha512.c"
    text = strip_comments(src(fname))
    iv = _state_words(fn_body(text, "sha512_init"), "state", 8, "sha512_init")
    m = re.search(r"\bK\s*\[\s*80\s*\]\s*=\s*\{(.*?)\}\s*;", text, flags=re.S)
    if not m:
        raise ExtractError("sha512.c: table K[80] not found")
    ks = [_int(t) for t in re.findall(r"CONST64\(\s*\w+\s*\)|0x[0-9A-Fa-f]+\w*", m.group(1))]
    if len(ks) != 80:
        raise ExtractError("sha512.c: K has %d entries" % len(ks))
    body = _sha2_common(fname, text, "sha512_compress", 80)
    b = re.sub(r"[\s\\]+", "", body)
    if ("#defineRND(a,b,c,d,e,f,g,h,i)t0=h+Sigma1(e)+Ch(e,f,g)+K[i]+W[i];"
            "t1=Sigma0(a)+Maj(a,b,c);d+=t0;h=t0+t1;") not in b:
        raise ExtractError("sha512_compress: RND macro changed")
    if "for(i=0;i<80;i+=8)" not in b:
        raise ExtractError("sha512_compress: round loop changed")
    calls = re.findall(r"\bRND\s*\(\s*" + r"\s*,\s*".join([r"S\[(\d)\]"] * 8) +
                       r"\s*,\s*i\s*\+\s*(\d+)\s*\)", body)
    if len(calls) != 8:
        raise ExtractError("sha512_compress: expected 8 RND lines in the loop, found %d" % len(calls))
    for n, c in enumerate(calls):
        regs = [int(x) for x in c[:8]]
        if int(c[8]) != n or regs != _rot(list(range(8)), n):
            raise ExtractError("sha512_compress: RND line %d changed" % n)
    return iv, ks, _sigmas(fname, text)


# ------------------------------------------------------------------ MD5

def _md5():
    text = strip_comments(src("md5.c"))
    init = fn_body(text, "MD5Init")
    iv = _state_words(init, "buf", 4, "MD5Init")
    for i in (0, 1):
        if not re.search(r"bits\s*\[\s*%d\s*\]\s*=\s*0\s*;" % i, init):
            raise ExtractError("MD5Init: bits[%d] = 0 not found" % i)
    # RFC 1321 §3.4: F = xy | ~x z, G = xz | y ~z, H = x^y^z, I = y ^ (x | ~z); compared by truth table
    funs = {"F1": "(x&y)|(~x&z)", "F2": "(x&z)|(y&~z)", "F3": "x^y^z", "F4": "y^(x|~z)"}
    f1 = expr_def(text, "F1")
    for name, ref in funs.items():
        d = expr_def(text, name)
        if not d or len(d[0]) != 3:
            raise ExtractError("md5.c: %s not found" % name)
        params, e = d
        mcall = re.fullmatch(r"F1\((\w+),(\w+),(\w+)\)", e)
        if mcall and f1 and name != "F1":
            sub = dict(zip(f1[0], mcall.groups()))
            e = re.sub(r"\b(%s)\b" % "|".join(f1[0]), lambda m: "\0" + sub[m.group(1)], f1[1]).replace("\0", "")
        if bool_table(e, params) != bool_table(ref, ["x", "y", "z"]):
            raise ExtractError("md5.c: %s changed" % name)
    m = re.search(r"#\s*define\s+MD5STEP\(f,\s*w,\s*x,\s*y,\s*z,\s*data,\s*s\)((?:[^\n]*\\\n)*[^\n]*)", text)
    if not m or re.sub(r"[\s\\]+", "", m.group(1)) != "(w+=f(x,y,z)+data,w=w<<s|w>>(32-s),w+=x)":
        raise ExtractError("md5.c: macro MD5STEP changed")
    tr = fn_body(text, "MD5Transform")
    if not re.search(r"in\s*\[\s*i\s*\]\s*=\s*GET_32BIT_LSB_FIRST\s*\(\s*inext\s*\+\s*4\s*\*\s*i\s*\)", tr):
        raise ExtractError("MD5Transform: little-endian word load not found")
    steps = re.findall(r"\bMD5STEP\s*\(\s*F([1-4])\s*,\s*([a-d])\s*,\s*([a-d])\s*,\s*([a-d])\s*,\s*([a-d])\s*,"
                       r"\s*in\s*\[\s*(\d+)\s*\]\s*\+\s*(0x[0-9A-Fa-f]+)\s*,\s*(\d+)\s*\)", tr)
    if len(steps) != 64:
        raise ExtractError("MD5Transform: expected 64 MD5STEP lines, found %d" % len(steps))
    fs, idx, ks, ss = [], [], [], []
    for n, s in enumerate(steps):
        regs = list(s[1:5])
        if regs != _rot(list("abcd"), n):
            raise ExtractError("MD5Transform: step %d register order %s" % (n, "".join(regs)))
        fs.append(int(s[0]))
        idx.append(int(s[5]))
        ks.append(int(s[6], 16))
        ss.append(int(s[7]))
        if not (0 <= idx[-1] < 16 and 0 < ss[-1] < 32):
            raise ExtractError("MD5Transform: step %d index/shift out of range" % n)
    for i, r in enumerate("abcd"):
        if not re.search(r"buf\s*\[\s*%d\s*\]\s*\+=\s*%s\s*;" % (i, r), tr):
            raise ExtractError("MD5Transform: feedback of buf[%d] not found" % i)
    return iv, fs, idx, ks, ss


# ------------------------------------------------------------------ bit counters (two 32-bit words)

def _len_shifts():
    """The statements that keep the 64-bit message length of MD5 and SHA-1 in two 32-bit words.
    The high word only moves for a single update of 2^29 bytes or more (or after 2^29 bytes in
    all), which no differential run reaches: these statements are translated, not sampled."""
    md5 = re.sub(r"\s+", "", fn_body(strip_comments(src("md5.c")), "MD5Update"))
    m = re.search(r"t=ctx->bits\[0\];if\(\(ctx->bits\[0\]=\(t\+\(\(uint32_t\)len<<(\d+)\)\)&0xffffffff\)<t\)"
                  r"ctx->bits\[1\]\+\+;ctx->bits\[1\]\+=len>>(\d+);", md5)
    if not m:
        raise ExtractError("MD5Update: bit count statements (bits[0] += len << 3 with carry, "
                           "bits[1] += len >> 29) not found")
    md5s = (int(m.group(1)), int(m.group(2)))
    sha1 = re.sub(r"\s+", "", fn_body(strip_comments(src("sha1.c")), "crypto_SHA1_Update"))
    m = re.search(r"if\(\(context->count\[0\]\+=\(uint32_t\)len<<(\d+)\)<\(\(uint32_t\)len<<(\d+)\)\)"
                  r"context->count\[1\]\+\+;context->count\[1\]\+=\(uint32_t\)\(len>>(\d+)\);", sha1)
    if not m or m.group(1) != m.group(2):
        raise ExtractError("crypto_SHA1_Update: bit count statements (count[0] += len << 3 with carry, "
                           "count[1] += len >> 29) not found")
    return md5s, (int(m.group(1)), int(m.group(3)))


# ------------------------------------------------------------------ HMAC

def _hmac():
    text = strip_comments(src("scram.c"))
    pads = {}
    for name in ("ipad", "opad"):
        m = re.search(r"\b%s\s*=\s*(0x[0-9A-Fa-f]+|\d+)\s*;" % name, text)
        if not m:
            raise ExtractError("scram.c: %s not found" % name)
        pads[name] = int(m.group(1), 0)
    # since 61739ad crypto_HMAC is a thin wrapper around crypto_HMAC_parts (text || text2)
    body = fn_body(text, "crypto_HMAC_parts") if "crypto_HMAC_parts" in text else fn_body(text, "crypto_HMAC")
    m = re.search(r"blocksize\s*=\s*alg\s*->\s*digest_size\s*<\s*(\d+)\s*\?\s*(\d+)\s*:\s*(\d+)\s*;", body)
    if not m:
        raise ExtractError("crypto_HMAC: block-size rule not found")
    thr, small, large = (int(g) for g in m.groups())
    if not re.search(r"key_len\s*<=\s*blocksize", body):
        raise ExtractError("crypto_HMAC: key length test not found")
    sizes = {}
    for fname, macro in (("sha1.h", "SHA1_DIGEST_SIZE"), ("sha256.h", "SHA256_DIGEST_SIZE"),
                         ("sha512.h", "SHA512_DIGEST_SIZE")):
        h = strip_comments(src(fname))
        mm = re.search(r"#\s*define\s+%s\s+(\d+)" % macro, h)
        if not mm:
            raise ExtractError("%s: %s not found" % (fname, macro))
        sizes[macro] = int(mm.group(1))
    return pads, thr, small, large, sizes


def gen_hash():
    s1_iv, s1_k, s1_kind = _sha1()
    s2_iv, s2_k, s2_sig = _sha256()
    s5_iv, s5_k, s5_sig = _sha512()
    m_iv, m_f, m_idx, m_k, m_s = _md5()
    pads, thr, small, large, sizes = _hmac()
    md5_sh, sha1_sh = _len_shifts()

    def sig(d, name):
        return "(%d, %d, %d)" % d[name]

    body = (
        "namespace Strophe.Gen\n\n"
        "/-! ### SHA-1 (src/sha1.c) -/\n"
        "/-- `crypto_SHA1_Init`: state[0..4] -/\n"
        "def sha1Init : List UInt32 := " + _hex_list(s1_iv) + "\n\n"
        "/-- additive constant of the round macros R0, R1, R2, R3, R4 -/\n"
        "def sha1MacroK : List UInt32 := " + _hex_list(s1_k) + "\n\n"
        "/-- which macro R0..R4 `SHA1_Transform` invokes for round i = 0..79\n"
        "    (register rotation a,b,c,d,e -> e,a,b,c,d per round and the index order are checked\n"
        "    by the extractor) -/\n"
        "def sha1RoundMacro : List Nat := " + lean_list(s1_kind, 20) + "\n\n"
        "/-! ### SHA-256 (src/sha256.c) -/\n"
        "def sha256Init : List UInt32 := " + _hex_list(s2_iv) + "\n\n"
        "/-- last argument of the 64 `RND(...)` lines of `sha256_compress` -/\n"
        "def sha256K : List UInt32 := " + _hex_list(s2_k) + "\n\n"
        "/-- rotation / shift amounts of Sigma0, Sigma1, Gamma0 (ror,ror,shr), Gamma1 (ror,ror,shr) -/\n"
        "def sha256Sigma0 : Nat × Nat × Nat := " + sig(s2_sig, "Sigma0") + "\n"
        "def sha256Sigma1 : Nat × Nat × Nat := " + sig(s2_sig, "Sigma1") + "\n"
        "def sha256Gamma0 : Nat × Nat × Nat := " + sig(s2_sig, "Gamma0") + "\n"
        "def sha256Gamma1 : Nat × Nat × Nat := " + sig(s2_sig, "Gamma1") + "\n\n"
        "/-! ### SHA-512 (src/sha512.c) -/\n"
        "def sha512Init : List UInt64 := " + _hex_list(s5_iv, 4, 16) + "\n\n"
        "/-- table `K[80]` -/\n"
        "def sha512K : List UInt64 := " + _hex_list(s5_k, 4, 16) + "\n\n"
        "def sha512Sigma0 : Nat × Nat × Nat := " + sig(s5_sig, "Sigma0") + "\n"
        "def sha512Sigma1 : Nat × Nat × Nat := " + sig(s5_sig, "Sigma1") + "\n"
        "def sha512Gamma0 : Nat × Nat × Nat := " + sig(s5_sig, "Gamma0") + "\n"
        "def sha512Gamma1 : Nat × Nat × Nat := " + sig(s5_sig, "Gamma1") + "\n\n"
        "/-! ### MD5 (src/md5.c) -/\n"
        "/-- `MD5Init`: buf[0..3] -/\n"
        "def md5Init : List UInt32 := " + _hex_list(m_iv) + "\n\n"
        "/-- per `MD5STEP` line: round function F1..F4 -/\n"
        "def md5StepF : List Nat := " + lean_list(m_f, 16) + "\n\n"
        "/-- per `MD5STEP` line: index k of the message word `in[k]` -/\n"
        "def md5StepIdx : List Nat := " + lean_list(m_idx, 16) + "\n\n"
        "/-- per `MD5STEP` line: additive constant -/\n"
        "def md5StepK : List UInt32 := " + _hex_list(m_k) + "\n\n"
        "/-- per `MD5STEP` line: left-rotation amount -/\n"
        "def md5StepS : List Nat := " + lean_list(m_s, 16) + "\n\n"
        "/-- `MD5Update`: bits[0] += len << a (carry into bits[1]); bits[1] += len >> b -/\n"
        "def md5LenShifts : Nat × Nat := (%d, %d)\n"
        "/-- `crypto_SHA1_Update`: count[0] += len << a (carry into count[1]); count[1] += len >> b -/\n"
        "def sha1LenShifts : Nat × Nat := (%d, %d)\n\n"
        "/-! ### HMAC (src/scram.c crypto_HMAC) -/\n"
        "def hmacIpad : UInt8 := 0x%02x\n"
        "def hmacOpad : UInt8 := 0x%02x\n"
        "/-- `blocksize = alg->digest_size < hmacBlockThreshold ? hmacBlockSmall : hmacBlockLarge` -/\n"
        "def hmacBlockThreshold : Nat := %d\n"
        "def hmacBlockSmall : Nat := %d\n"
        "def hmacBlockLarge : Nat := %d\n"
        "def sha1DigestSize : Nat := %d\n"
        "def sha256DigestSize : Nat := %d\n"
        "def sha512DigestSize : Nat := %d\n\n"
        "end Strophe.Gen\n" % (md5_sh[0], md5_sh[1], sha1_sh[0], sha1_sh[1], pads["ipad"], pads["opad"], thr, small, large,
                               sizes["SHA1_DIGEST_SIZE"], sizes["SHA256_DIGEST_SIZE"],
                               sizes["SHA512_DIGEST_SIZE"]))
    write("HashConsts", body)


if __name__ == "__main__":
    gen_hash()
