/* HARNESS replaces: scram.c, auth.c, rand.c */
/* HARNESS extra: wrap_scram.c, wrap_auth.c, fake_rand.c */
/* HARNESS wraps: send_stanza,send_raw_string,xmpp_disconnect,disconnect_mem_error,tls_init_channel_binding,tls_get_channel_binding_data,tls_id_on_xmppaddr,tls_id_on_xmppaddr_num */
/* engine sasl (C07) — the pure computation of the SASL / legacy / component credentials.
   Stateless: every op builds what it needs and releases it; a block still live afterwards is
   reported as `ORACLE-FAIL leak n` before the op's `=` line.  Byte strings are hex C strings
   (cut at the first NUL, as the C code sees them) unless marked (bin).

     plain Hauthid Hpass                       sasl_plain                       -> = ok H | = null
     digest Hchal|- Hjid Hpass Hrnd            sasl_digest_md5; the 6 random    -> = ok H | = null
                                               bytes of the cnonce come from Hrnd(bin)
     digestx Htext|- Hjid Hpass Hrnd           _handle_digestmd5_challenge on   -> = resp H | = memerr
                                               <challenge>text</challenge> (`-`: no text child)
     scram alg Hcb Hchal Hfirstbare Hpass      sasl_scram(ctx, alg, cb, chal,   -> = ok H | = null
                                               first_bare, "unused", pass)
     scraminit alg sec Htype|- Hcb|- Hjid Hrnd _make_scram_init_msg             -> = ok Hmsg Hcbb64 off | = fail
         alg  sha1|sha256|sha512|sha1plus|sha256plus|sha512plus
         sec  0|1 (conn->secured, conn->tls set)
         Htype   what tls_init_channel_binding reports as prefix (`-`: it fails)
         Hcb(bin) what tls_get_channel_binding_data returns (`-`: NULL)
         Hrnd(bin) the 16 random bytes of the client nonce
         off  = first_bare - scram_init
     scramx alg sec Htype|- Hcb|- Hjid Hpass Hrnd Htext|-
         _make_scram_init_msg, then _handle_scram_challenge on <challenge>text</challenge> with the
         record as _auth() would have registered it   -> = fail | = ok Hmsg Hcbb64 off resp H | … memerr
     hi alg Hpass(bin) Hsalt(bin) i            SCRAM_Hi                         -> = H
     ckey alg Hpass(bin) Hsalt(bin) i          SCRAM_ClientKey                  -> = H
     csig alg Hkey(bin) Hauth(bin)             SCRAM_ClientSignature (|key| = digest size)  -> = H
     cproof alg Hkey(bin) Hsig(bin)            SCRAM_ClientProof (both digest size)          -> = H
     hs Hid|- Hsecret                          _handle_component_auth, captured send_raw_string
                                                                                -> = rc n Hwire|-
     legacy Hjid Hpass                         _auth_legacy, fields read back from the <iq/> handed
                                               to send_stanza  -> = iq Htype Hid Hns Huser Hpass Hres | = disc | = memerr
     auth mask legacy Hjid Hpass|- n Haddr0|-  _auth with conn->sasl_support = mask (decimal; only PLAIN,
                                               ANONYMOUS, EXTERNAL bits), auth_legacy_enabled = legacy;
                                               the fake certificate has n xmppAddr entries, the first
                                               is Haddr0       -> = mech Hname Htext|- | = iq … | = disc | = memerr
     nonce len Hrnd                            xmpp_rand_nonce(rand, buf[len], len) with scripted
                                               getrandom       -> = H <bytes requested from getrandom>
     fresh n                                   REAL getrandom: n SCRAM client nonces and n DIGEST-MD5
                                               cnonces must be pairwise distinct, upper-case hex of
                                               length 32 / 12  -> = fresh n   (+ ORACLE-FAIL dup-nonce …)
   A sanitizer abort is an outcome of the op (check.py records it); nothing special is printed. */
#include "hconn.h"
#include "sasl.h"
#include "scram.h"
#include <stdarg.h>
#include <unistd.h>

void hx_Hi(const struct hash_alg *alg, const uint8_t *text, size_t len, const uint8_t *salt,
           size_t salt_len, uint32_t i, uint8_t *digest);
void hx_rand_script(const unsigned char *p, size_t n);
extern long hx_rand_bytes_served;
void *hx_scram_new(xmpp_conn_t *conn, const struct hash_alg *alg);
int hx_scram_init(void *p);
const char *hx_scram_first(void *p);
const char *hx_scram_cb(void *p);
long hx_scram_first_bare_off(void *p);
void hx_scram_free(xmpp_conn_t *conn, void *p);
void hx_scram_free_record(xmpp_conn_t *conn, void *p);
int hx_scram_challenge(xmpp_conn_t *conn, xmpp_stanza_t *stanza, void *p);
int hx_digest_challenge(xmpp_conn_t *conn, xmpp_stanza_t *stanza);
void hx_auth(xmpp_conn_t *conn);
void hx_auth_legacy(xmpp_conn_t *conn);
int hx_component_auth(xmpp_conn_t *conn);

/* ---------------- fakes reached through -Wl,--wrap ---------------- */

static xmpp_stanza_t *cap_stanza;
static char *cap_raw;
static int cap_disc, cap_memerr;
static const char *fk_type;
static const unsigned char *fk_cb;
static size_t fk_cb_n;
static unsigned fk_xaddr_n;
static const char *fk_xaddr0;

void __wrap_send_stanza(xmpp_conn_t *conn, xmpp_stanza_t *stanza, xmpp_send_queue_owner_t owner)
{
    (void)conn;
    (void)owner;
    if (cap_stanza)
        xmpp_stanza_release(cap_stanza);
    cap_stanza = stanza;
}

void __wrap_send_raw_string(xmpp_conn_t *conn, const char *fmt, ...)
{
    va_list ap;
    int n;
    (void)conn;
    free(cap_raw);
    va_start(ap, fmt);
    n = vsnprintf(NULL, 0, fmt, ap);
    va_end(ap);
    cap_raw = malloc((size_t)n + 1);
    va_start(ap, fmt);
    vsnprintf(cap_raw, (size_t)n + 1, fmt, ap);
    va_end(ap);
}

void __wrap_xmpp_disconnect(xmpp_conn_t *conn)
{
    (void)conn;
    cap_disc++;
}

void __wrap_disconnect_mem_error(xmpp_conn_t *conn)
{
    (void)conn;
    cap_memerr++;
}

int __wrap_tls_init_channel_binding(tls_t *tls, const char **prefix, size_t *prefix_len)
{
    (void)tls;
    if (!fk_type)
        return -1;
    *prefix = fk_type;
    *prefix_len = strlen(fk_type);
    return 0;
}

const void *__wrap_tls_get_channel_binding_data(tls_t *tls, size_t *size)
{
    (void)tls;
    if (!fk_cb)
        return NULL;
    *size = fk_cb_n;
    return fk_cb;
}

char *__wrap_tls_id_on_xmppaddr(xmpp_conn_t *conn, unsigned int n)
{
    if (n >= fk_xaddr_n || n != 0 || !fk_xaddr0)
        return NULL;
    return strophe_strdup(conn->ctx, fk_xaddr0);
}

unsigned int __wrap_tls_id_on_xmppaddr_num(xmpp_conn_t *conn)
{
    (void)conn;
    return fk_xaddr_n;
}

/* ---------------- helpers ---------------- */

static const struct hash_alg *alg_by_name(const char *n)
{
    static const char *names[][2] = {{"sha1", "SCRAM-SHA-1"},          {"sha256", "SCRAM-SHA-256"},
                                     {"sha512", "SCRAM-SHA-512"},      {"sha1plus", "SCRAM-SHA-1-PLUS"},
                                     {"sha256plus", "SCRAM-SHA-256-PLUS"}, {"sha512plus", "SCRAM-SHA-512-PLUS"}};
    size_t i, k;
    for (k = 0; k < 6; k++)
        if (!strcmp(n, names[k][0]))
            for (i = 0; i < scram_algs_num; i++)
                if (!strcmp(scram_algs[i]->scram_name, names[k][1]))
                    return scram_algs[i];
    return NULL;
}

static int parse_u32(const char *s, uint32_t *v)
{
    char *end;
    unsigned long long x;
    if (!*s || *s < '0' || *s > '9')
        return -1;
    x = strtoull(s, &end, 10);
    if (*end || x > 0xffffffffull)
        return -1;
    *v = (uint32_t)x;
    return 0;
}

#define MAXARG 10
typedef struct {
    hbuf b[MAXARG];
    char *s[MAXARG];
} args_t;

static void args_free(args_t *a)
{
    int i;
    for (i = 0; i < MAXARG; i++) {
        hbuf_free(&a->b[i]);
        free(a->s[i]);
        a->s[i] = NULL;
    }
}

/* parse tokens tok[from..n) as hex; returns 0 or -1 */
static int args_parse(args_t *a, char **tok, int from, int n)
{
    int i;
    memset(a, 0, sizeof(*a));
    for (i = from; i < n && i - from < MAXARG; i++) {
        if (hparse(tok[i], &a->b[i - from]) < 0) {
            args_free(a);
            return -1;
        }
        a->s[i - from] = hcstr(&a->b[i - from]);
    }
    return 0;
}

static void put_hex_str(FILE *f, const char *s)
{
    hprint_hex(f, (const unsigned char *)s, s ? strlen(s) : 0);
}

static hconn_t *mk_conn(xmpp_ctx_t *ctx, const char *jid, const char *pass)
{
    hconn_t *h = hconn_new(ctx);
    h->conn->jid = jid ? strophe_strdup(ctx, jid) : NULL;
    h->conn->pass = pass ? strophe_strdup(ctx, pass) : NULL;
    return h;
}

static int dummy_tls;

static void set_secured(hconn_t *h, int sec)
{
    h->conn->secured = sec;
    h->conn->tls_failed = 0;
    h->conn->tls = sec ? (tls_t *)&dummy_tls : NULL;
}

static void rm_conn(hconn_t *h)
{
    h->conn->tls = NULL;
    hconn_free(h, 0);
}

static void reset_caps(void)
{
    if (cap_stanza)
        xmpp_stanza_release(cap_stanza);
    cap_stanza = NULL;
    free(cap_raw);
    cap_raw = NULL;
    cap_disc = cap_memerr = 0;
    fk_type = NULL;
    fk_cb = NULL;
    fk_cb_n = 0;
    fk_xaddr_n = 0;
    fk_xaddr0 = NULL;
}

/* <challenge xmlns='urn:ietf:params:xml:ns:xmpp-sasl'>text</challenge>; text NULL: no child */
static xmpp_stanza_t *mk_challenge(xmpp_ctx_t *ctx, const char *text)
{
    xmpp_stanza_t *st = xmpp_stanza_new(ctx);
    xmpp_stanza_set_name(st, "challenge");
    xmpp_stanza_set_ns(st, XMPP_NS_SASL);
    if (text) {
        xmpp_stanza_t *t = xmpp_stanza_new(ctx);
        xmpp_stanza_set_text(t, text);
        xmpp_stanza_add_child_ex(st, t, 0);
    }
    return st;
}

/* text of the first text child, as stored (NULL: no child) */
static const char *child_text(xmpp_stanza_t *st)
{
    xmpp_stanza_t *c = st ? xmpp_stanza_get_children(st) : NULL;
    return c ? xmpp_stanza_get_text_ptr(c) : NULL;
}

static void put_captured(FILE *res)
{
    const char *name = cap_stanza ? xmpp_stanza_get_name(cap_stanza) : NULL;
    if (cap_memerr)
        fprintf(res, "= memerr");
    else if (cap_disc)
        fprintf(res, "= disc");
    else if (!name)
        fprintf(res, "= nothing");
    else if (!strcmp(name, "auth")) {
        fprintf(res, "= mech ");
        put_hex_str(res, xmpp_stanza_get_attribute(cap_stanza, "mechanism"));
        fputc(' ', res);
        put_hex_str(res, child_text(cap_stanza));
    } else if (!strcmp(name, "response")) {
        fprintf(res, "= resp ");
        put_hex_str(res, child_text(cap_stanza));
    } else if (!strcmp(name, "iq")) {
        xmpp_stanza_t *q = xmpp_stanza_get_child_by_name(cap_stanza, "query");
        static const char *f[] = {"username", "password", "resource"};
        int k;
        fprintf(res, "= iq ");
        put_hex_str(res, xmpp_stanza_get_type(cap_stanza));
        fputc(' ', res);
        put_hex_str(res, xmpp_stanza_get_id(cap_stanza));
        fputc(' ', res);
        put_hex_str(res, q ? xmpp_stanza_get_ns(q) : NULL);
        for (k = 0; k < 3; k++) {
            xmpp_stanza_t *c = q ? xmpp_stanza_get_child_by_name(q, f[k]) : NULL;
            fputc(' ', res);
            put_hex_str(res, child_text(c));
        }
    } else
        fprintf(res, "= other");
}

/* one SCRAM client nonce / one DIGEST-MD5 cnonce from the REAL random source */
static int fresh_nonces(xmpp_ctx_t *ctx, char *scram_nonce, char *digest_nonce)
{
    hconn_t *h = mk_conn(ctx, "user@example.org", "pw");
    void *s = hx_scram_new(h->conn, alg_by_name("sha1"));
    const char *p;
    char *resp, *dec;
    int ok = 0;
    scram_nonce[0] = digest_nonce[0] = 0;
    if (hx_scram_init(s) == 0) {
        p = strstr(hx_scram_first(s), ",r=");
        if (p && strlen(p + 3) < 64) {
            strcpy(scram_nonce, p + 3);
            ok = 1;
        }
        hx_scram_free(h->conn, s);
    } else
        hx_scram_free_record(h->conn, s);
    rm_conn(h);
    /* "nonce=\"abc\",qop=\"auth\",charset=utf-8" */
    resp = sasl_digest_md5(ctx, "bm9uY2U9ImFiYyIscW9wPSJhdXRoIixjaGFyc2V0PXV0Zi04", "user@example.org", "pw");
    if (!resp)
        return 0;
    dec = xmpp_base64_decode_str(ctx, resp, strlen(resp));
    xmpp_free(ctx, resp);
    if (!dec)
        return 0;
    p = strstr(dec, "cnonce=\"");
    if (p) {
        const char *e = strchr(p + 8, '"');
        if (e && e - (p + 8) < 64) {
            memcpy(digest_nonce, p + 8, (size_t)(e - (p + 8)));
            digest_nonce[e - (p + 8)] = 0;
        } else
            ok = 0;
    } else
        ok = 0;
    xmpp_free(ctx, dec);
    return ok;
}

static int upper_hex(const char *s, size_t want)
{
    size_t i;
    if (strlen(s) != want)
        return 0;
    for (i = 0; i < want; i++)
        if (!((s[i] >= '0' && s[i] <= '9') || (s[i] >= 'A' && s[i] <= 'F')))
            return 0;
    return 1;
}

/* ---------------- the engine ---------------- */

int eng_sasl(FILE *in, FILE *out)
{
    xmpp_ctx_t *ctx = xmpp_ctx_new(&hmem, &hlog_quiet);
    char *line;
    static char *tok[16];
    long base_live = hmem_live;
    while ((line = hreadline(in))) {
        int n = hsplit(line, tok, 16);
        char *resbuf = NULL;
        size_t reslen = 0;
        FILE *res = open_memstream(&resbuf, &reslen);
        args_t a;
        const struct hash_alg *alg;
        memset(&a, 0, sizeof(a));
        reset_caps();
        hx_rand_script(NULL, 0);
        fflush(out); /* everything before a crashing op must be visible */

        if (n == 3 && !strcmp(tok[0], "plain") && !args_parse(&a, tok, 1, n) && a.s[0] && a.s[1]) {
            char *r = sasl_plain(ctx, a.s[0], a.s[1]);
            if (r) {
                fprintf(res, "= ok ");
                put_hex_str(res, r);
                xmpp_free(ctx, r);
            } else
                fprintf(res, "= null");
        } else if (n == 5 && !strcmp(tok[0], "digest") && !args_parse(&a, tok, 1, n) && a.s[1] && a.s[2] &&
                   a.b[3].p) {
            char *r;
            hx_rand_script(a.b[3].p, a.b[3].n);
            r = sasl_digest_md5(ctx, a.s[0], a.s[1], a.s[2]);
            if (r) {
                fprintf(res, "= ok ");
                put_hex_str(res, r);
                xmpp_free(ctx, r);
            } else
                fprintf(res, "= null");
        } else if (n == 5 && !strcmp(tok[0], "digestx") && !args_parse(&a, tok, 1, n) && a.s[1] && a.s[2] &&
                   a.b[3].p) {
            hconn_t *h = mk_conn(ctx, a.s[1], a.s[2]);
            xmpp_stanza_t *st = mk_challenge(ctx, a.s[0]);
            hx_rand_script(a.b[3].p, a.b[3].n);
            hx_digest_challenge(h->conn, st);
            put_captured(res);
            xmpp_stanza_release(st);
            reset_caps();
            rm_conn(h);
        } else if (n == 6 && !strcmp(tok[0], "scram") && (alg = alg_by_name(tok[1])) &&
                   !args_parse(&a, tok, 2, n) && a.s[0] && a.s[1] && a.s[2] && a.s[3]) {
            char *r = sasl_scram(ctx, alg, a.s[0], a.s[1], a.s[2], "unused@unused", a.s[3]);
            if (r) {
                fprintf(res, "= ok ");
                put_hex_str(res, r);
                xmpp_free(ctx, r);
            } else
                fprintf(res, "= null");
        } else if (((n == 7 && !strcmp(tok[0], "scraminit")) || (n == 9 && !strcmp(tok[0], "scramx"))) &&
                   (alg = alg_by_name(tok[1])) && (!strcmp(tok[2], "0") || !strcmp(tok[2], "1")) &&
                   !args_parse(&a, tok, 3, n)) {
            /* a: 0 type, 1 cbdata, 2 jid, [3 pass,] rnd, [text] */
            int x = tok[0][5] == 'x';
            const char *pass = x ? a.s[3] : "unused";
            hbuf *rnd = &a.b[x ? 4 : 3];
            if (!a.s[2] || !pass || !rnd->p)
                fprintf(res, "= bad-op");
            else {
                hconn_t *h = mk_conn(ctx, a.s[2], pass);
                void *s;
                set_secured(h, tok[2][0] == '1');
                fk_type = a.s[0];
                fk_cb = a.b[1].p;
                fk_cb_n = a.b[1].n;
                hx_rand_script(rnd->p, rnd->n);
                s = hx_scram_new(h->conn, alg);
                if (hx_scram_init(s) != 0) {
                    fprintf(res, "= fail");
                    hx_scram_free_record(h->conn, s);
                } else {
                    fprintf(res, "= ok ");
                    put_hex_str(res, hx_scram_first(s));
                    fputc(' ', res);
                    put_hex_str(res, hx_scram_cb(s));
                    fprintf(res, " %ld", hx_scram_first_bare_off(s));
                    if (x) {
                        xmpp_stanza_t *st = mk_challenge(ctx, a.s[5]);
                        int rc = hx_scram_challenge(h->conn, st, s);
                        xmpp_stanza_release(st);
                        if (cap_memerr)
                            fprintf(res, " memerr"); /* the handler has released the record */
                        else {
                            fprintf(res, " resp ");
                            put_hex_str(res, child_text(cap_stanza));
                            hx_scram_free(h->conn, s);
                        }
                        (void)rc;
                    } else
                        hx_scram_free(h->conn, s);
                }
                reset_caps();
                rm_conn(h);
            }
        } else if (n == 5 && (!strcmp(tok[0], "hi") || !strcmp(tok[0], "ckey")) && (alg = alg_by_name(tok[1])) &&
                   !args_parse(&a, tok, 2, 4) && a.b[0].p && a.b[1].p) {
            uint32_t it;
            uint8_t dg[SCRAM_DIGEST_SIZE];
            if (parse_u32(tok[4], &it) < 0)
                fprintf(res, "= bad-op");
            else {
                memset(dg, 0xA5, sizeof(dg));
                if (tok[0][0] == 'h')
                    hx_Hi(alg, a.b[0].p, a.b[0].n, a.b[1].p, a.b[1].n, it, dg);
                else
                    SCRAM_ClientKey(alg, a.b[0].p, a.b[0].n, a.b[1].p, a.b[1].n, it, dg);
                fprintf(res, "= ");
                hprint_hex(res, dg, alg->digest_size);
            }
        } else if (n == 4 && !strcmp(tok[0], "csig") && (alg = alg_by_name(tok[1])) && !args_parse(&a, tok, 2, n) &&
                   a.b[0].p && a.b[1].p && a.b[0].n == alg->digest_size) {
            uint8_t dg[SCRAM_DIGEST_SIZE];
            memset(dg, 0xA5, sizeof(dg));
            SCRAM_ClientSignature(alg, a.b[0].p, a.b[1].p, a.b[1].n, dg);
            fprintf(res, "= ");
            hprint_hex(res, dg, alg->digest_size);
        } else if (n == 4 && !strcmp(tok[0], "cproof") && (alg = alg_by_name(tok[1])) &&
                   !args_parse(&a, tok, 2, n) && a.b[0].p && a.b[1].p && a.b[0].n == alg->digest_size &&
                   a.b[1].n == alg->digest_size) {
            uint8_t dg[SCRAM_DIGEST_SIZE];
            memset(dg, 0xA5, sizeof(dg));
            SCRAM_ClientProof(alg, a.b[0].p, a.b[1].p, dg);
            fprintf(res, "= ");
            hprint_hex(res, dg, alg->digest_size);
        } else if (n == 3 && !strcmp(tok[0], "hs") && !args_parse(&a, tok, 1, n) && a.s[1]) {
            hconn_t *h = mk_conn(ctx, "component.example.org", a.s[1]);
            int rc;
            h->conn->type = XMPP_COMPONENT;
            h->conn->stream_id = a.s[0] ? strophe_strdup(ctx, a.s[0]) : NULL;
            rc = hx_component_auth(h->conn);
            fprintf(res, "= rc %d ", rc);
            put_hex_str(res, cap_raw);
            reset_caps();
            rm_conn(h);
        } else if (n == 3 && !strcmp(tok[0], "legacy") && !args_parse(&a, tok, 1, n) && a.s[0] && a.s[1]) {
            hconn_t *h = mk_conn(ctx, a.s[0], a.s[1]);
            hx_auth_legacy(h->conn);
            put_captured(res);
            reset_caps();
            rm_conn(h);
        } else if (n == 7 && !strcmp(tok[0], "auth") && !args_parse(&a, tok, 3, 5) && a.s[0]) {
            hconn_t *h = mk_conn(ctx, a.s[0], a.s[1]);
            hbuf xa;
            char *xas;
            long mask = atol(tok[1]);
            if (hparse(tok[6], &xa) < 0 || (mask & ~(long)(SASL_MASK_PLAIN | SASL_MASK_ANONYMOUS | SASL_MASK_EXTERNAL))) {
                fprintf(res, "= bad-op");
                rm_conn(h);
            } else {
                xas = hcstr(&xa);
                h->conn->type = XMPP_CLIENT;
                h->conn->sasl_support = (int)mask;
                h->conn->tls_support = 0;
                h->conn->tls_mandatory = 0;
                h->conn->auth_legacy_enabled = atoi(tok[2]) ? 1 : 0;
                fk_xaddr_n = (unsigned)atoi(tok[5]);
                fk_xaddr0 = xas;
                hx_auth(h->conn);
                put_captured(res);
                fprintf(res, " %d", h->conn->sasl_support);
                reset_caps();
                rm_conn(h);
                free(xas);
                hbuf_free(&xa);
            }
        } else if (n == 3 && !strcmp(tok[0], "nonce") && !args_parse(&a, tok, 2, n) && a.b[0].p) {
            size_t len = (size_t)atol(tok[1]);
            char *buf = malloc(len ? len : 1);
            memset(buf, 0xA5, len);
            hx_rand_script(a.b[0].p, a.b[0].n);
            xmpp_rand_nonce(ctx->rand, buf, len);
            fprintf(res, "= ");
            if (len == 0)
                fprintf(res, "-");
            else
                put_hex_str(res, buf);
            fprintf(res, " %ld", hx_rand_bytes_served);
            free(buf);
        } else if (n == 2 && !strcmp(tok[0], "fresh")) {
            int cnt = atoi(tok[1]), i, j;
            char(*sn)[64], (*dn)[64];
            if (cnt < 1 || cnt > 4096)
                cnt = 1;
            sn = calloc((size_t)cnt, 64);
            dn = calloc((size_t)cnt, 64);
            for (i = 0; i < cnt; i++) {
                if (!fresh_nonces(ctx, sn[i], dn[i]))
                    fprintf(out, "ORACLE-FAIL nonce-missing %d\n", i);
                if (!upper_hex(sn[i], 32) || !upper_hex(dn[i], 12))
                    fprintf(out, "ORACLE-FAIL nonce-shape %d\n", i);
            }
            for (i = 0; i < cnt; i++)
                for (j = 0; j < i; j++)
                    if (!strcmp(sn[i], sn[j]) || !strcmp(dn[i], dn[j])) {
                        fprintf(out, "ORACLE-FAIL dup-nonce %d %d\n", j, i);
                        i = cnt;
                        break;
                    }
            free(sn);
            free(dn);
            fprintf(res, "= fresh %d", cnt);
        } else
            fprintf(res, "= bad-op");

        args_free(&a);
        hx_rand_script(NULL, 0);
        fclose(res);
        if (hmem_live != base_live) {
            fprintf(out, "ORACLE-FAIL leak %ld\n", hmem_live - base_live);
            base_live = hmem_live;
        }
        fprintf(out, "%s\n", resbuf);
        free(resbuf);
        fflush(out);
    }
    xmpp_ctx_free(ctx);
    return 0;
}
