/* Compiles /repo/src/scram.c as part of this unit (the library's own scram.o is left out of the
   link, see VARIANT_REPLACED in check/build.py) so that its static functions can be reached. */
#include "scram.c"

void hx_HMAC(const struct hash_alg *alg, const uint8_t *key, size_t key_len, const uint8_t *text,
             size_t len, uint8_t *digest)
{
    crypto_HMAC(alg, key, key_len, text, len, digest);
}

void hx_Hi(const struct hash_alg *alg, const uint8_t *text, size_t len, const uint8_t *salt,
           size_t salt_len, uint32_t i, uint8_t *digest)
{
    SCRAM_Hi(alg, text, len, salt, salt_len, i, digest);
}
