/* A real xmpp_conn_t driven through a scripted fake transport (conn_interface). */
#ifndef HCONN_H
#define HCONN_H
#include "hcommon.h"

enum { ACC_ALL = -1, ACC_AGAIN = -2, ACC_ERR = -3 }; /* >= 0: accept at most n bytes */

typedef struct {
    xmpp_ctx_t *ctx;
    xmpp_conn_t *conn;
    /* write side */
    int sched[4096];
    int nsched, sched_pos;
    unsigned char *wire; /* bytes accepted by the fake transport since the last hconn_take_wire */
    size_t wire_n, wire_cap;
    int last_err; /* what get_error reports */
    long write_calls;
    /* notifications */
    int n_connect, n_disconnect, n_raw;
    int last_ev_error;
    char events[512];
} hconn_t;

extern hconn_t *hconn_cur;

/* creates ctx (if NULL) + conn, installs the fake interface, state = CONNECTED, negotiated */
hconn_t *hconn_new(xmpp_ctx_t *ctx);
void hconn_free(hconn_t *h, int free_ctx);
void hconn_set_schedule(hconn_t *h, const char *csv); /* "all,3,0,again,err" */
void hconn_take_wire(hconn_t *h, FILE *out);          /* prints hex of wire, resets it */
void hconn_dump_queue(hconn_t *h, FILE *out);
void hconn_install_intf(hconn_t *h);
#endif
