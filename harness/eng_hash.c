/* HARNESS replaces: scram.c */
/* HARNESS extra: wrap_scram.c */
/* engine hash (C17):
     sha1|sha256|sha512|md5 <inject> <chunk>*   -> = <digest> <bits-before-final hex> <buffered>
         inject: "-" or a block-aligned 64-bit bit count (hex) written into the fresh context
     hmac sha1|sha256|sha512 <key> <msg>        -> = <mac>
     sha1api <chunk>*                           -> = <to_string as hex> <digest>
     sha1one <data>                             -> = <xmpp_sha1 string as hex> <xmpp_sha1_digest>
*/
#include "hcommon.h"
#include "sha1.h"
#include "sha256.h"
#include "sha512.h"
#include "md5.h"
#include "scram.h"

void hx_HMAC(const struct hash_alg *alg, const uint8_t *key, size_t key_len, const uint8_t *text,
             size_t len, uint8_t *digest);

#define MAXTOK 4100

static const struct hash_alg *alg_by_name(const char *n)
{
    const char *want = !strcmp(n, "sha1")     ? "SCRAM-SHA-1"
                       : !strcmp(n, "sha256") ? "SCRAM-SHA-256"
                       : !strcmp(n, "sha512") ? "SCRAM-SHA-512"
                                              : n;
    size_t i;
    for (i = 0; i < scram_algs_num; i++)
        if (!strcmp(scram_algs[i]->scram_name, want))
            return scram_algs[i];
    return NULL;
}

int eng_hash(FILE *in, FILE *out)
{
    xmpp_ctx_t *ctx = xmpp_ctx_new(&hmem, &hlog_quiet);
    char *line;
    static char *tok[MAXTOK];
    while ((line = hreadline(in))) {
        int n = hsplit(line, tok, MAXTOK), k, bad = 0;
        unsigned long long inject = 0;
        int has_inject = 0;
        if (n < 2) {
            fprintf(out, "= bad-op\n");
            continue;
        }
        if (!strcmp(tok[0], "hmac")) {
            const struct hash_alg *alg = n == 4 ? alg_by_name(tok[1]) : NULL;
            hbuf key, msg;
            uint8_t mac[64];
            if (!alg || hparse(tok[2], &key) < 0 || hparse(tok[3], &msg) < 0 || !key.p || !msg.p) {
                fprintf(out, "= bad-op\n");
                continue;
            }
            hx_HMAC(alg, key.p, key.n, msg.p, msg.n, mac);
            fprintf(out, "= ");
            hprint_hex(out, mac, alg->digest_size);
            fputc('\n', out);
            hbuf_free(&key);
            hbuf_free(&msg);
            continue;
        }
        if (!strcmp(tok[0], "sha1api")) {
            xmpp_sha1_t *s = xmpp_sha1_new(ctx);
            char str[41];
            unsigned char dg[20];
            for (k = 1; k < n; k++) {
                hbuf b;
                if (hparse(tok[k], &b) < 0 || !b.p) {
                    bad = 1;
                    break;
                }
                xmpp_sha1_update(s, b.p, b.n);
                hbuf_free(&b);
            }
            if (bad) {
                xmpp_sha1_free(s);
                fprintf(out, "= bad-op\n");
                continue;
            }
            xmpp_sha1_final(s);
            xmpp_sha1_to_string(s, str, sizeof(str));
            xmpp_sha1_to_digest(s, dg);
            xmpp_sha1_free(s);
            fprintf(out, "= ");
            hprint_hex(out, (unsigned char *)str, strlen(str));
            fputc(' ', out);
            hprint_hex(out, dg, 20);
            fputc('\n', out);
            continue;
        }
        if (!strcmp(tok[0], "sha1one")) {
            hbuf b;
            char *s;
            unsigned char dg[20];
            if (n != 2 || hparse(tok[1], &b) < 0 || !b.p) {
                fprintf(out, "= bad-op\n");
                continue;
            }
            s = xmpp_sha1(ctx, b.p, b.n);
            xmpp_sha1_digest(b.p, b.n, dg);
            fprintf(out, "= ");
            hprint_hex(out, (unsigned char *)s, s ? strlen(s) : 0);
            fputc(' ', out);
            hprint_hex(out, dg, 20);
            fputc('\n', out);
            if (s)
                xmpp_free(ctx, s);
            hbuf_free(&b);
            continue;
        }
        if (strcmp(tok[1], "-") != 0) {
            char *end;
            inject = strtoull(tok[1], &end, 16);
            has_inject = 1;
            if (*end)
                bad = 1;
        }
        if (bad) {
            fprintf(out, "= bad-op\n");
            continue;
        }
        if (!strcmp(tok[0], "sha1")) {
            SHA1_CTX c;
            uint8_t dg[20];
            unsigned long long bits;
            unsigned buffered;
            crypto_SHA1_Init(&c);
            memset(c.buffer, 0, sizeof(c.buffer));
            if (has_inject) {
                c.count[0] = (uint32_t)inject;
                c.count[1] = (uint32_t)(inject >> 32);
            }
            for (k = 2; k < n && !bad; k++) {
                hbuf b;
                if (hparse(tok[k], &b) < 0 || !b.p) {
                    bad = 1;
                    break;
                }
                crypto_SHA1_Update(&c, b.p, b.n);
                hbuf_free(&b);
            }
            if (bad) {
                fprintf(out, "= bad-op\n");
                continue;
            }
            bits = ((unsigned long long)c.count[1] << 32) | c.count[0];
            buffered = (c.count[0] >> 3) & 63;
            crypto_SHA1_Final(&c, dg);
            fprintf(out, "= ");
            hprint_hex(out, dg, 20);
            fprintf(out, " %llx %u\n", bits, buffered);
        } else if (!strcmp(tok[0], "md5")) {
            struct MD5Context c;
            uint8_t dg[16];
            unsigned long long bits;
            unsigned buffered;
            MD5Init(&c);
            if (has_inject) {
                c.bits[0] = (uint32_t)inject;
                c.bits[1] = (uint32_t)(inject >> 32);
            }
            for (k = 2; k < n && !bad; k++) {
                hbuf b;
                if (hparse(tok[k], &b) < 0 || !b.p) {
                    bad = 1;
                    break;
                }
                MD5Update(&c, b.p, (uint32_t)b.n);
                hbuf_free(&b);
            }
            if (bad) {
                fprintf(out, "= bad-op\n");
                continue;
            }
            bits = ((unsigned long long)c.bits[1] << 32) | c.bits[0];
            buffered = (c.bits[0] >> 3) & 63;
            MD5Final(dg, &c);
            fprintf(out, "= ");
            hprint_hex(out, dg, 16);
            fprintf(out, " %llx %u\n", bits, buffered);
        } else if (!strcmp(tok[0], "sha256")) {
            sha256_context c;
            uint8_t dg[32];
            unsigned long long bits;
            unsigned buffered;
            sha256_init(&c);
            if (has_inject)
                c.length = inject;
            for (k = 2; k < n && !bad; k++) {
                hbuf b;
                if (hparse(tok[k], &b) < 0 || !b.p) {
                    bad = 1;
                    break;
                }
                sha256_process(&c, b.p, b.n);
                hbuf_free(&b);
            }
            if (bad) {
                fprintf(out, "= bad-op\n");
                continue;
            }
            bits = c.length + 8ull * c.curlen;
            buffered = c.curlen;
            sha256_done(&c, dg);
            fprintf(out, "= ");
            hprint_hex(out, dg, 32);
            fprintf(out, " %llx %u\n", bits, buffered);
        } else if (!strcmp(tok[0], "sha512")) {
            sha512_context c;
            uint8_t dg[64];
            unsigned long long bits;
            unsigned buffered;
            sha512_init(&c);
            if (has_inject)
                c.length = inject;
            for (k = 2; k < n && !bad; k++) {
                hbuf b;
                if (hparse(tok[k], &b) < 0 || !b.p) {
                    bad = 1;
                    break;
                }
                sha512_process(&c, b.p, b.n);
                hbuf_free(&b);
            }
            if (bad) {
                fprintf(out, "= bad-op\n");
                continue;
            }
            bits = c.length + 8ull * c.curlen;
            buffered = c.curlen;
            sha512_done(&c, dg);
            fprintf(out, "= ");
            hprint_hex(out, dg, 64);
            fprintf(out, " %llx %u\n", bits, buffered);
        } else
            fprintf(out, "= bad-op\n");
    }
    xmpp_ctx_free(ctx);
    if (hmem_live != 0)
        fprintf(out, "ORACLE-FAIL leak %ld\n", hmem_live);
    return 0;
}
