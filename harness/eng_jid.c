/* engine jid (C19): node H | domain H | resource H | bare H | new N D R   (N,D,R may be "-") */
#include "hcommon.h"

static void out_str(FILE *out, xmpp_ctx_t *ctx, char *s)
{
    if (s) {
        fprintf(out, "= ");
        hprint_hex(out, (unsigned char *)s, strlen(s));
        fputc('\n', out);
        xmpp_free(ctx, s);
    } else
        fprintf(out, "= null\n");
}

int eng_jid(FILE *in, FILE *out)
{
    xmpp_ctx_t *ctx = xmpp_ctx_new(&hmem, &hlog_quiet);
    char *line;
    while ((line = hreadline(in))) {
        char *tok[5];
        int n = hsplit(line, tok, 5);
        if (n == 2) {
            hbuf b;
            char *s;
            if (hparse(tok[1], &b) < 0 || !b.p || memchr(b.p, 0, b.n)) {
                fprintf(out, "= bad-op\n");
                continue;
            }
            s = hcstr(&b);
            if (strcmp(tok[0], "node") == 0)
                out_str(out, ctx, xmpp_jid_node(ctx, s));
            else if (strcmp(tok[0], "domain") == 0)
                out_str(out, ctx, xmpp_jid_domain(ctx, s));
            else if (strcmp(tok[0], "resource") == 0)
                out_str(out, ctx, xmpp_jid_resource(ctx, s));
            else if (strcmp(tok[0], "bare") == 0)
                out_str(out, ctx, xmpp_jid_bare(ctx, s));
            else
                fprintf(out, "= bad-op\n");
            free(s);
            hbuf_free(&b);
        } else if (n == 4 && strcmp(tok[0], "new") == 0) {
            hbuf a, b, c;
            char *sa, *sb, *sc;
            if (hparse(tok[1], &a) < 0 || hparse(tok[2], &b) < 0 || hparse(tok[3], &c) < 0 ||
                (a.p && memchr(a.p, 0, a.n)) || (b.p && memchr(b.p, 0, b.n)) ||
                (c.p && memchr(c.p, 0, c.n))) {
                fprintf(out, "= bad-op\n");
                continue;
            }
            sa = hcstr(&a);
            sb = hcstr(&b);
            sc = hcstr(&c);
            out_str(out, ctx, xmpp_jid_new(ctx, sa, sb, sc));
            free(sa);
            free(sb);
            free(sc);
            hbuf_free(&a);
            hbuf_free(&b);
            hbuf_free(&c);
        } else
            fprintf(out, "= bad-op\n");
    }
    xmpp_ctx_free(ctx);
    if (hmem_live != 0)
        fprintf(out, "ORACLE-FAIL leak %ld\n", hmem_live);
    return 0;
}
