/* HARNESS wraps: malloc,calloc,realloc,free,strdup,strndup,XML_ParserCreate_MM,deflateInit_,inflateInit_ */
/* engine own (C12): stanza OWNERSHIP programs through the public API over the REAL library
 * (stanza.c, hash.c, parser_expat.c, compression.c) with the instrumented allocator.
 *
 * The "caller" of the library is this engine.  It owns 32 handle slots h0..h31; a non-empty slot IS
 * one reference to a stanza that the caller holds (obtained from xmpp_stanza_new / _clone / _copy /
 * _reply / _reply_error / xmpp_error_new / xmpp_stanza_new_from_string, given up by
 * xmpp_stanza_release or by xmpp_stanza_add_child_ex(.., do_clone = 0)).  Several slots may hold
 * references to the same stanza, and a slot may hold a reference to a stanza that is (or was) a child of
 * another one.  A *target* T is a slot or a path below it, `h3`, `h3/0/2` (third child of the first
 * child of h3): the borrowed pointers of xmpp_stanza_get_children / xmpp_stanza_get_next, resolved anew
 * for every op.  Byte strings are lower-case hex (`.` empty, `-` NULL) and are handed over as C strings.
 *
 * After EVERY op the engine prints the number of blocks of the instrumented allocator that are live
 * above the baseline taken when the context was created (`live N`).
 *
 *   new w                  hw := xmpp_stanza_new(ctx)                          = ok live N
 *   clone T w              hw := xmpp_stanza_clone(T)                          = ok live N
 *   copy T w               hw := xmpp_stanza_copy(T)                           = ok|null live N
 *   rel v                  xmpp_stanza_release(hv); hv := empty                = freed 0|1 live N
 *   relkeep v              xmpp_stanza_release(hv), slot KEPT (breaks rule R1; never generated)
 *                                                                            = freed 0|1 live N
 *   add T c                xmpp_stanza_add_child(T, hc)   (slot c keeps its reference)
 *                                                                            = rc n live N
 *   addx T c               xmpp_stanza_add_child_ex(T, hc, 0); hc := empty (reference handed over)
 *                                                                            = rc n live N
 *   name T H | text T H | textz T H | attr T Hk Hv | ns T H | delattr T Hk    = rc n live N
 *                          xmpp_stanza_set_name / _set_text_with_size / _set_text / _set_attribute /
 *                          _set_ns / _del_attribute
 *   getattr T Hk           xmpp_stanza_get_attribute                           = val H|- live N
 *   gettext T              xmpp_stanza_get_text, result printed and xmpp_free'd = val H|- live N
 *   reply T w              hw := xmpp_stanza_reply(T)                          = ok|null live N
 *   replyerr T w Ht Hc Hx  hw := xmpp_stanza_reply_error(T, type, cond, text)  = ok|null live N
 *   errnew n Hx w          hw := xmpp_error_new(ctx, n, text)                  = ok live N
 *   parse H w              hw := xmpp_stanza_new_from_string(ctx, H)           = ok|null live N
 *   render T               xmpp_stanza_to_text, buffer printed and xmpp_free'd  = H len live N | = err rc live N
 *   dump T                 the tree below T read through the accessor API, with the reference count of
 *                          every node (white box: stanza->ref):
 *                            tag  (Hname#ref{Hk=Hv,… sorted}[kids])   text 'Hdata'#ref[kids]   other ?#ref[kids]
 *                          ([kids] of text / other nodes only when there are any)
 *                                                                            = tree … live N
 *   stat T                 white box: ref and NULL-ness of the link fields     = node ref R par 0|1 prev 0|1 next 0|1 kids 0|1 live N
 *   zround H               allocator-routing round for zlib: a connection object with a loop-back
 *                          transport, compression_init, H written + flushed through the compressing
 *                          interface, read back through the decompressing one, xmpp_conn_release
 *                                                                            = zround ok|mismatch|init-failed live N
 *   ctx2 H                 a SECOND context on the same allocator: xmpp_stanza_new_from_string(ctx2, H),
 *                          release, xmpp_ctx_free(ctx2) (expat must use ctx2's allocator as well)
 *                                                                            = ctx2 ok|null live N
 *   gth n k                a fresh context on the same allocator, n global timed handlers added
 *                          (xmpp_global_timed_handler_add), the first k of them deleted again
 *                          (xmpp_global_timed_handler_delete), xmpp_ctx_free (which must return the rest)
 *                                                                            = gth live N
 *   Connection objects (4 slots c0..c3) and detached stream-management states (4 slots s0..s3): the
 *   hand-over of SM state BETWEEN connection objects.  Their blocks are kept out of `live N` (the engine
 *   books the change of the allocator's count across each of these ops on a separate account); the account
 *   must be back at 0 when every connection is released and every state freed or handed to a connection.
 *   cnew c                 cc := xmpp_conn_new(ctx)                            = ok live N
 *   crestore c H           xmpp_conn_restore_sm_state(cc, H)                   = rc n live N
 *   smget c s              ss := xmpp_conn_get_sm_state(cc)                    = ok|null live N
 *   smset c s              xmpp_conn_set_sm_state(cc, ss); ss := empty on success = rc n live N
 *   smfree s               xmpp_free_sm_state(ss); ss := empty                 = ok live N
 *   crel c                 xmpp_conn_release(cc); cc := empty                  = freed n live N
 *   end                    release every slot (in index order), every connection, free every state
 *                                                                            = end live N
 *                          `ORACLE-FAIL leak n` if N != 0, `ORACLE-FAIL leak-conn n` if the
 *                          connection account is not back at 0
 *   case                   (line protocol) same clean-up, silently           = case
 *
 * Refusals (no library call is made): = err bad-op | = err novar (source slot empty) | = err busy
 * (destination slot occupied) | = err path.  Nothing else is refused: whether a program respects the
 * ownership rules (DESIGN 5.12 / Props/C12.lean `WellOwned`) is the generator's business.
 *
 * ORACLE-FAIL lines (model free):
 *   leak n         blocks live after every reference was released
 *   bypass <what>  libstrophe code called malloc/calloc/realloc/free/strdup/strndup directly (link-wrapped;
 *                  calls made by the instrumented allocator itself and by this harness are exempt), or
 *                  handed expat / zlib no allocator (XML_ParserCreate_MM without memory suite,
 *                  deflateInit/inflateInit without zalloc/zfree): memory outside the context's allocator
 *   length / errbuf  as in engine stz
 * plus what hcommon's allocator reports by itself (foreign-or-double-free, abort) and ASan.
 */
#include "hcommon.h"
#include <expat.h>
#include <unistd.h>
#include <zlib.h>

#define NSLOT 32
#define MAXTOK 8

/* ---------------- allocator bypass detection (stage 2) ---------------- */

void *__real_malloc(size_t n);
void *__real_calloc(size_t a, size_t b);
void *__real_realloc(void *p, size_t n);
void __real_free(void *p);
char *__real_strdup(const char *s);
char *__real_strndup(const char *s, size_t n);

static int in_lib;    /* > 0 while a library function called by the engine is running */
static int in_alloc;  /* > 0 while the context's allocator (own_mem below) is running */
static long bypass_count;
static char bypass_what[64];

static void bypass(const char *what)
{
    if (in_lib > 0 && in_alloc == 0) {
        if (!bypass_count)
            snprintf(bypass_what, sizeof bypass_what, "%s", what);
        bypass_count++;
    }
}

void *__wrap_malloc(size_t n)
{
    bypass("malloc");
    return __real_malloc(n);
}
void *__wrap_calloc(size_t a, size_t b)
{
    bypass("calloc");
    return __real_calloc(a, b);
}
void *__wrap_realloc(void *p, size_t n)
{
    bypass("realloc");
    return __real_realloc(p, n);
}
void __wrap_free(void *p)
{
    bypass("free");
    __real_free(p);
}
char *__wrap_strdup(const char *s)
{
    bypass("strdup");
    return __real_strdup(s);
}
char *__wrap_strndup(const char *s, size_t n)
{
    bypass("strndup");
    return __real_strndup(s, n);
}

XML_Parser __real_XML_ParserCreate_MM(const XML_Char *enc, const XML_Memory_Handling_Suite *ms, const XML_Char *sep);
XML_Parser __wrap_XML_ParserCreate_MM(const XML_Char *enc, const XML_Memory_Handling_Suite *ms, const XML_Char *sep)
{
    if (!ms || !ms->malloc_fcn || !ms->realloc_fcn || !ms->free_fcn) {
        int keep = in_alloc;
        in_alloc = 0;
        bypass("expat-without-memsuite");
        in_alloc = keep;
    }
    return __real_XML_ParserCreate_MM(enc, ms, sep);
}

int __real_deflateInit_(z_streamp strm, int level, const char *version, int stream_size);
int __wrap_deflateInit_(z_streamp strm, int level, const char *version, int stream_size)
{
    if (!strm->zalloc || !strm->zfree)
        bypass("zlib-deflate-without-zalloc");
    return __real_deflateInit_(strm, level, version, stream_size);
}
int __real_inflateInit_(z_streamp strm, const char *version, int stream_size);
int __wrap_inflateInit_(z_streamp strm, const char *version, int stream_size)
{
    if (!strm->zalloc || !strm->zfree)
        bypass("zlib-inflate-without-zalloc");
    return __real_inflateInit_(strm, version, stream_size);
}

/* the allocator handed to xmpp_ctx_new: hcommon's instrumented allocator, bracketed so that ITS
   calls of malloc/free are not taken for a bypass */
static void *own_alloc(size_t size, void *ud)
{
    void *p;
    in_alloc++;
    p = hmem.alloc(size, ud);
    in_alloc--;
    return p;
}
static void own_free(void *p, void *ud)
{
    in_alloc++;
    hmem.free(p, ud);
    in_alloc--;
}
static void *own_realloc(void *p, size_t size, void *ud)
{
    void *q;
    in_alloc++;
    q = hmem.realloc(p, size, ud);
    in_alloc--;
    return q;
}
static const xmpp_mem_t own_mem = {own_alloc, own_free, own_realloc, NULL};

#define LIB(expr)      \
    do {               \
        in_lib++;      \
        expr;          \
        in_lib--;      \
    } while (0)

/* ---------------- state ---------------- */

static xmpp_ctx_t *ctx;
static xmpp_stanza_t *slots[NSLOT];
static long baseline;

#define NCONN 4
static xmpp_conn_t *conns[NCONN];
static xmpp_sm_state_t *sms[NCONN];
static long conn_blocks; /* blocks booked on the connection account */

static int slotno(const char *tok)
{
    int n = 0;
    const char *p = tok;
    if (*p++ != 'h' || !*p)
        return -1;
    while (*p >= '0' && *p <= '9') {
        n = n * 10 + (*p - '0');
        if (n >= NSLOT)
            return -1;
        p++;
    }
    if (*p && *p != '/')
        return -1;
    return n;
}

static int plainslot(const char *tok)
{
    if (strchr(tok, '/'))
        return -1;
    return slotno(tok);
}

/* 0 ok, 1 bad syntax, 2 novar, 3 path */
static int resolve(const char *tok, xmpp_stanza_t **res)
{
    int v = slotno(tok);
    const char *p;
    xmpp_stanza_t *s;
    if (v < 0)
        return 1;
    p = strchr(tok, '/');
    while (p) {
        p++;
        if (!(*p >= '0' && *p <= '9'))
            return 1;
        while (*p >= '0' && *p <= '9')
            p++;
        if (*p && *p != '/')
            return 1;
        p = *p ? p : NULL;
    }
    s = slots[v];
    if (!s)
        return 2;
    p = strchr(tok, '/');
    while (p) {
        long idx = 0;
        p++;
        while (*p >= '0' && *p <= '9') {
            idx = idx * 10 + (*p - '0');
            if (idx > 1000000)
                return 3;
            p++;
        }
        LIB(s = xmpp_stanza_get_children(s));
        while (s && idx-- > 0)
            LIB(s = xmpp_stanza_get_next(s));
        if (!s)
            return 3;
        p = *p ? p : NULL;
    }
    *res = s;
    return 0;
}

static const char *reserr(int e)
{
    return e == 1 ? "= err bad-op" : e == 2 ? "= err novar" : "= err path";
}

static long live(void)
{
    return hmem_live - baseline - conn_blocks;
}

/* `c<d>` / `s<d>` */
static int smallslot(const char *tok, char pfx)
{
    if (tok[0] != pfx || tok[1] < '0' || tok[1] >= '0' + NCONN || tok[2])
        return -1;
    return tok[1] - '0';
}

#define CONN_OP(expr)               \
    do {                            \
        long before_ = hmem_live;   \
        LIB(expr);                  \
        conn_blocks += hmem_live - before_; \
    } while (0)

static int gth_fn0(xmpp_ctx_t *c, void *u) { (void)c; (void)u; return 1; }
static int gth_fn1(xmpp_ctx_t *c, void *u) { (void)c; (void)u; return 1; }
static int gth_fn2(xmpp_ctx_t *c, void *u) { (void)c; (void)u; return 1; }
static int gth_fn3(xmpp_ctx_t *c, void *u) { (void)c; (void)u; return 1; }
static int gth_fn4(xmpp_ctx_t *c, void *u) { (void)c; (void)u; return 1; }
static int gth_fn5(xmpp_ctx_t *c, void *u) { (void)c; (void)u; return 1; }
static int gth_fn6(xmpp_ctx_t *c, void *u) { (void)c; (void)u; return 1; }
static int gth_fn7(xmpp_ctx_t *c, void *u) { (void)c; (void)u; return 1; }
static const xmpp_global_timed_handler gth_fns[8] = {gth_fn0, gth_fn1, gth_fn2, gth_fn3,
                                                     gth_fn4, gth_fn5, gth_fn6, gth_fn7};

/* ---------------- dump ---------------- */

typedef struct {
    const char *k, *v;
} kv;

static int kvcmp(const void *a, const void *b)
{
    return strcmp(((const kv *)a)->k, ((const kv *)b)->k);
}

static void hexs(FILE *out, const char *s)
{
    if (!s)
        fputc('-', out);
    else
        hprint_hex(out, (const unsigned char *)s, strlen(s));
}

static void dump(FILE *out, xmpp_stanza_t *s);

static void dump_kids(FILE *out, xmpp_stanza_t *s, int always)
{
    xmpp_stanza_t *c = xmpp_stanza_get_children(s);
    if (!c && !always)
        return;
    fputc('[', out);
    for (; c; c = xmpp_stanza_get_next(c)) {
        dump(out, c);
        if (xmpp_stanza_get_next(c))
            fputc(',', out);
    }
    fputc(']', out);
}

static void dump(FILE *out, xmpp_stanza_t *s)
{
    if (xmpp_stanza_is_text(s)) {
        fputc('\'', out);
        hexs(out, xmpp_stanza_get_text_ptr(s));
        fprintf(out, "'#%d", s->ref);
        dump_kids(out, s, 0);
    } else if (xmpp_stanza_is_tag(s)) {
        int n = xmpp_stanza_get_attribute_count(s), got, i;
        const char **arr = __real_calloc((size_t)(2 * n + 2), sizeof(char *));
        kv *kvs = __real_calloc((size_t)n + 1, sizeof(kv));
        fputc('(', out);
        hexs(out, xmpp_stanza_get_name(s));
        fprintf(out, "#%d{", s->ref);
        got = xmpp_stanza_get_attributes(s, arr, 2 * n);
        if (got != 2 * n)
            fprintf(out, "!count%d/%d!", got, 2 * n);
        for (i = 0; i < got / 2; i++) {
            kvs[i].k = arr[2 * i];
            kvs[i].v = arr[2 * i + 1];
        }
        qsort(kvs, (size_t)(got / 2), sizeof(kv), kvcmp);
        for (i = 0; i < got / 2; i++) {
            if (i)
                fputc(',', out);
            hexs(out, kvs[i].k);
            fputc('=', out);
            hexs(out, kvs[i].v);
        }
        fputc('}', out);
        dump_kids(out, s, 1);
        fputc(')', out);
        __real_free(arr);
        __real_free(kvs);
    } else {
        fprintf(out, "?#%d", s->ref);
        dump_kids(out, s, 0);
    }
}

/* ---------------- zlib round ---------------- */

typedef struct {
    unsigned char *p;
    size_t n, cap, rd;
} lbuf;
static lbuf loopb;

static int lb_read(struct conn_interface *intf, void *buff, size_t len)
{
    size_t k = loopb.n - loopb.rd;
    (void)intf;
    if (k > len)
        k = len;
    if (k == 0)
        return 0;
    memcpy(buff, loopb.p + loopb.rd, k);
    loopb.rd += k;
    return (int)k;
}
static int lb_write(struct conn_interface *intf, const void *buff, size_t len)
{
    (void)intf;
    if (loopb.n + len + 1 > loopb.cap) {
        loopb.cap = (loopb.n + len + 1) * 2;
        loopb.p = __real_realloc(loopb.p, loopb.cap);
    }
    memcpy(loopb.p + loopb.n, buff, len);
    loopb.n += len;
    return (int)len;
}
static int lb_nop(struct conn_interface *intf)
{
    (void)intf;
    return 0;
}
static int lb_pending(struct conn_interface *intf)
{
    (void)intf;
    return loopb.rd < loopb.n;
}
static int lb_rec(struct conn_interface *intf, int err)
{
    (void)intf;
    (void)err;
    return 0;
}
static const struct conn_interface lb_intf = {lb_read, lb_write, lb_nop, lb_pending, lb_nop, lb_rec, NULL};

static const char *do_zround(const hbuf *data)
{
    xmpp_conn_t *conn;
    const char *res = "ok";
    unsigned char *back;
    size_t got = 0;
    int rc, guard = 0;
    loopb.n = loopb.rd = 0;
    LIB(conn = xmpp_conn_new(ctx));
    if (!conn)
        return "init-failed";
    conn->intf = lb_intf;
    conn->intf.conn = conn;
    conn->compression.allowed = 1;
    conn->compression.supported = 1;
    LIB(rc = compression_init(conn));
    if (rc != 0) {
        LIB(xmpp_conn_release(conn));
        return "init-failed";
    }
    conn->state = XMPP_STATE_CONNECTED;
    LIB(rc = conn->intf.write(&conn->intf, data->p, data->n));
    if (rc != (int)data->n)
        res = "mismatch";
    LIB(rc = conn->intf.flush(&conn->intf));
    back = __real_malloc(data->n + 1);
    while (got < data->n && guard++ < 100000) {
        LIB(rc = conn->intf.read(&conn->intf, back + got, data->n - got));
        if (rc <= 0)
            break;
        got += (size_t)rc;
    }
    if (got != data->n || memcmp(back, data->p, data->n) != 0)
        res = "mismatch";
    __real_free(back);
    conn->state = XMPP_STATE_DISCONNECTED;
    LIB(xmpp_conn_release(conn));
    return res;
}

/* ---------------- engine ---------------- */

static int numtok(const char *t, int neg_ok, int maxdig, long *res)
{
    int neg = 0, nd = 0;
    long v = 0;
    if (neg_ok && *t == '-') {
        neg = 1;
        t++;
    }
    while (*t >= '0' && *t <= '9') {
        v = v * 10 + (*t - '0');
        t++;
        if (++nd > maxdig)
            return 0;
    }
    if (*t || nd == 0)
        return 0;
    *res = neg ? -v : v;
    return 1;
}

static void cleanup(void)
{
    int i;
    for (i = 0; i < NSLOT; i++)
        if (slots[i]) {
            LIB(xmpp_stanza_release(slots[i]));
            slots[i] = NULL;
        }
    for (i = 0; i < NCONN; i++) {
        if (conns[i]) {
            CONN_OP(xmpp_conn_release(conns[i]));
            conns[i] = NULL;
        }
        if (sms[i]) {
            CONN_OP(xmpp_free_sm_state(sms[i]));
            sms[i] = NULL;
        }
    }
}

static void put_stanza(FILE *out, int w, xmpp_stanza_t *s)
{
    if (s) {
        slots[w] = s;
        fprintf(out, "= ok live %ld\n", live());
    } else
        fprintf(out, "= null live %ld\n", live());
}

static void report_bypass(FILE *out)
{
    if (bypass_count) {
        fprintf(out, "ORACLE-FAIL bypass %s calls=%ld\n", bypass_what, bypass_count);
        bypass_count = 0;
    }
}

int eng_own(FILE *in, FILE *rout)
{
    char *line;
    LIB(ctx = xmpp_ctx_new(&own_mem, &hlog_quiet));
    {
        /* parser_expat.c serves expat from the allocator of the FIRST context that creates a parser
           (static mem_ctx): make that the engine's context, so that only `ctx2` ops see a "second" one */
        xmpp_stanza_t *warm;
        LIB(warm = xmpp_stanza_new_from_string(ctx, "<warm/>"));
        if (warm)
            LIB(xmpp_stanza_release(warm));
        bypass_count = 0;
    }
    baseline = hmem_live;
    hmem_fill = 0xA5;
    while ((line = hreadline(in))) {
        char *tok[MAXTOK + 1];
        int n = hsplit(line, tok, MAXTOK + 1);
        hbuf b[3] = {{NULL, 0}, {NULL, 0}, {NULL, 0}};
        char *cs[3] = {NULL, NULL, NULL};
        xmpp_stanza_t *t = NULL, *r = NULL;
        int e, w, i, rc;
        const char *op = n ? tok[0] : "";
        char *obuf = NULL;
        size_t olen = 0;
        FILE *out = open_memstream(&obuf, &olen); /* the op's lines; bypass reports go in front */

#define BAD()                         \
    do {                              \
        fputs("= err bad-op\n", out); \
        goto done;                    \
    } while (0)
#define TARGET(k)                            \
    do {                                     \
        e = resolve(tok[k], &t);             \
        if (e) {                             \
            fprintf(out, "%s\n", reserr(e)); \
            goto done;                       \
        }                                    \
    } while (0)
#define HEX(i, k, allow_null)                                        \
    do {                                                             \
        if (hparse(tok[k], &b[i]) < 0 || (!(allow_null) && !b[i].p)) \
            BAD();                                                   \
        cs[i] = hcstr(&b[i]);                                        \
    } while (0)
#define DEST(k)                         \
    do {                                \
        w = plainslot(tok[k]);          \
        if (w < 0)                      \
            BAD();                      \
        if (slots[w]) {                 \
            fputs("= err busy\n", out); \
            goto done;                  \
        }                               \
    } while (0)
#define RC() fprintf(out, "= rc %d live %ld\n", rc, live())

        if (n > MAXTOK)
            BAD();
        if (strcmp(op, "case") == 0 && n == 1) {
            /* watchdog: a pointer walk over a corrupted (cyclic) structure must end the process, not the
               orchestrator's patience */
            alarm(20);
            cleanup();
            bypass_count = 0;
            /* a leak of the previous case was reported at its `end`; start the next one balanced */
            conn_blocks = 0;
            baseline = hmem_live;
            fputs("= case\n", out);
        } else if (strcmp(op, "end") == 0 && n == 1) {
            cleanup();
            if (conn_blocks != 0) {
                fprintf(out, "ORACLE-FAIL leak-conn %ld\n", conn_blocks);
                baseline += conn_blocks;
                conn_blocks = 0;
            }
            if (live() != 0)
                fprintf(out, "ORACLE-FAIL leak %ld\n", live());
            report_bypass(out);
            fprintf(out, "= end live %ld\n", live());
        } else if (strcmp(op, "new") == 0 && n == 2) {
            DEST(1);
            LIB(r = xmpp_stanza_new(ctx));
            put_stanza(out, w, r);
        } else if (strcmp(op, "clone") == 0 && n == 3) {
            if (plainslot(tok[2]) < 0)
                BAD();
            TARGET(1);
            DEST(2);
            LIB(r = xmpp_stanza_clone(t));
            put_stanza(out, w, r);
        } else if (strcmp(op, "copy") == 0 && n == 3) {
            if (plainslot(tok[2]) < 0)
                BAD();
            TARGET(1);
            DEST(2);
            LIB(r = xmpp_stanza_copy(t));
            put_stanza(out, w, r);
        } else if ((strcmp(op, "rel") == 0 || strcmp(op, "relkeep") == 0) && n == 2) {
            int v = plainslot(tok[1]);
            if (v < 0)
                BAD();
            if (!slots[v]) {
                fputs("= err novar\n", out);
                goto done;
            }
            LIB(rc = xmpp_stanza_release(slots[v]));
            if (op[3] == 0)
                slots[v] = NULL;
            fprintf(out, "= freed %d live %ld\n", rc, live());
        } else if ((strcmp(op, "add") == 0 || strcmp(op, "addx") == 0) && n == 3) {
            int c = plainslot(tok[2]);
            if (c < 0)
                BAD();
            TARGET(1);
            if (!slots[c]) {
                fputs("= err novar\n", out);
                goto done;
            }
            if (op[3] == 0)
                LIB(rc = xmpp_stanza_add_child(t, slots[c]));
            else {
                LIB(rc = xmpp_stanza_add_child_ex(t, slots[c], 0));
                slots[c] = NULL;
            }
            RC();
        } else if (strcmp(op, "name") == 0 && n == 3) {
            HEX(0, 2, 0);
            TARGET(1);
            LIB(rc = xmpp_stanza_set_name(t, cs[0]));
            RC();
        } else if (strcmp(op, "text") == 0 && n == 3) {
            HEX(0, 2, 0);
            TARGET(1);
            LIB(rc = xmpp_stanza_set_text_with_size(t, (char *)b[0].p, b[0].n));
            RC();
        } else if (strcmp(op, "textz") == 0 && n == 3) {
            HEX(0, 2, 0);
            TARGET(1);
            LIB(rc = xmpp_stanza_set_text(t, cs[0]));
            RC();
        } else if (strcmp(op, "attr") == 0 && n == 4) {
            HEX(0, 2, 0);
            HEX(1, 3, 0);
            TARGET(1);
            LIB(rc = xmpp_stanza_set_attribute(t, cs[0], cs[1]));
            RC();
        } else if (strcmp(op, "ns") == 0 && n == 3) {
            HEX(0, 2, 0);
            TARGET(1);
            LIB(rc = xmpp_stanza_set_ns(t, cs[0]));
            RC();
        } else if (strcmp(op, "delattr") == 0 && n == 3) {
            HEX(0, 2, 0);
            TARGET(1);
            LIB(rc = xmpp_stanza_del_attribute(t, cs[0]));
            RC();
        } else if (strcmp(op, "getattr") == 0 && n == 3) {
            const char *v;
            HEX(0, 2, 0);
            TARGET(1);
            LIB(v = xmpp_stanza_get_attribute(t, cs[0]));
            fputs("= val ", out);
            hexs(out, v);
            fprintf(out, " live %ld\n", live());
        } else if (strcmp(op, "gettext") == 0 && n == 2) {
            char *v;
            TARGET(1);
            LIB(v = xmpp_stanza_get_text(t));
            fputs("= val ", out);
            hexs(out, v);
            if (v)
                LIB(xmpp_free(ctx, v));
            fprintf(out, " live %ld\n", live());
        } else if (strcmp(op, "reply") == 0 && n == 3) {
            if (plainslot(tok[2]) < 0)
                BAD();
            TARGET(1);
            DEST(2);
            LIB(r = xmpp_stanza_reply(t));
            put_stanza(out, w, r);
        } else if (strcmp(op, "replyerr") == 0 && n == 6) {
            if (plainslot(tok[2]) < 0)
                BAD();
            HEX(0, 3, 1);
            HEX(1, 4, 1);
            HEX(2, 5, 1);
            TARGET(1);
            DEST(2);
            LIB(r = xmpp_stanza_reply_error(t, cs[0], cs[1], cs[2]));
            put_stanza(out, w, r);
        } else if (strcmp(op, "errnew") == 0 && n == 4) {
            long ty;
            if (!numtok(tok[1], 1, 4, &ty) || ty < -1000 || ty > 1000)
                BAD();
            HEX(0, 2, 1);
            DEST(3);
            LIB(r = xmpp_error_new(ctx, (xmpp_error_type_t)ty, cs[0]));
            put_stanza(out, w, r);
        } else if (strcmp(op, "parse") == 0 && n == 3) {
            HEX(0, 1, 0);
            DEST(2);
            LIB(r = xmpp_stanza_new_from_string(ctx, cs[0]));
            put_stanza(out, w, r);
        } else if (strcmp(op, "render") == 0 && n == 2) {
            char *buf = (char *)(uintptr_t)1;
            size_t len = 12345;
            TARGET(1);
            LIB(rc = xmpp_stanza_to_text(t, &buf, &len));
            if (rc != XMPP_EOK) {
                if (buf != NULL || len != 0)
                    fputs("ORACLE-FAIL errbuf\n", out);
                fprintf(out, "= err %d live %ld\n", rc, live());
            } else {
                if (strlen(buf) != len)
                    fprintf(out, "ORACLE-FAIL length strlen=%zu reported=%zu\n", strlen(buf), len);
                fputs("= ", out);
                hprint_hex(out, (unsigned char *)buf, strlen(buf));
                LIB(xmpp_free(ctx, buf));
                fprintf(out, " %zu live %ld\n", len, live());
            }
        } else if (strcmp(op, "dump") == 0 && n == 2) {
            TARGET(1);
            fputs("= tree ", out);
            LIB(dump(out, t));
            fprintf(out, " live %ld\n", live());
        } else if (strcmp(op, "stat") == 0 && n == 2) {
            TARGET(1);
            fprintf(out, "= node ref %d par %d prev %d next %d kids %d live %ld\n", t->ref, t->parent != NULL,
                    t->prev != NULL, t->next != NULL, t->children != NULL, live());
        } else if (strcmp(op, "gth") == 0 && n == 3) {
            long cnt, del;
            xmpp_ctx_t *c3;
            if (!numtok(tok[1], 0, 1, &cnt) || !numtok(tok[2], 0, 1, &del) || cnt > 8 || del > cnt)
                BAD();
            LIB(c3 = xmpp_ctx_new(&own_mem, &hlog_quiet));
            for (i = 0; i < cnt; i++)
                LIB(xmpp_global_timed_handler_add(c3, gth_fns[i], 1000 + (unsigned long)i, NULL));
            for (i = 0; i < del; i++)
                LIB(xmpp_global_timed_handler_delete(c3, gth_fns[i]));
            LIB(xmpp_ctx_free(c3));
            fprintf(out, "= gth live %ld\n", live());
        } else if (strcmp(op, "cnew") == 0 && n == 2) {
            int c = smallslot(tok[1], 'c');
            if (c < 0)
                BAD();
            if (conns[c]) {
                fputs("= err busy\n", out);
                goto done;
            }
            CONN_OP(conns[c] = xmpp_conn_new(ctx));
            fprintf(out, "= %s live %ld\n", conns[c] ? "ok" : "null", live());
        } else if (strcmp(op, "crestore") == 0 && n == 3) {
            int c = smallslot(tok[1], 'c');
            if (c < 0)
                BAD();
            HEX(0, 2, 0);
            if (!conns[c]) {
                fputs("= err novar\n", out);
                goto done;
            }
            CONN_OP(rc = xmpp_conn_restore_sm_state(conns[c], b[0].p, b[0].n));
            RC();
        } else if (strcmp(op, "smget") == 0 && n == 3) {
            int c = smallslot(tok[1], 'c'), v = smallslot(tok[2], 's');
            if (c < 0 || v < 0)
                BAD();
            if (!conns[c]) {
                fputs("= err novar\n", out);
                goto done;
            }
            if (sms[v]) {
                fputs("= err busy\n", out);
                goto done;
            }
            CONN_OP(sms[v] = xmpp_conn_get_sm_state(conns[c]));
            fprintf(out, "= %s live %ld\n", sms[v] ? "ok" : "null", live());
        } else if (strcmp(op, "smset") == 0 && n == 3) {
            int c = smallslot(tok[1], 'c'), v = smallslot(tok[2], 's');
            if (c < 0 || v < 0)
                BAD();
            if (!conns[c] || !sms[v]) {
                fputs("= err novar\n", out);
                goto done;
            }
            CONN_OP(rc = xmpp_conn_set_sm_state(conns[c], sms[v]));
            if (rc == XMPP_EOK)
                sms[v] = NULL;
            RC();
        } else if (strcmp(op, "smfree") == 0 && n == 2) {
            int v = smallslot(tok[1], 's');
            if (v < 0)
                BAD();
            if (!sms[v]) {
                fputs("= err novar\n", out);
                goto done;
            }
            CONN_OP(xmpp_free_sm_state(sms[v]));
            sms[v] = NULL;
            fprintf(out, "= ok live %ld\n", live());
        } else if (strcmp(op, "crel") == 0 && n == 2) {
            int c = smallslot(tok[1], 'c');
            if (c < 0)
                BAD();
            if (!conns[c]) {
                fputs("= err novar\n", out);
                goto done;
            }
            CONN_OP(rc = xmpp_conn_release(conns[c]));
            conns[c] = NULL;
            fprintf(out, "= freed %d live %ld\n", rc, live());
        } else if (strcmp(op, "zround") == 0 && n == 2) {
            const char *res;
            HEX(0, 1, 0);
            res = do_zround(&b[0]);
            report_bypass(out);
            fprintf(out, "= zround %s live %ld\n", res, live());
        } else if (strcmp(op, "ctx2") == 0 && n == 2) {
            xmpp_ctx_t *c2;
            HEX(0, 1, 0);
            LIB(c2 = xmpp_ctx_new(&own_mem, &hlog_quiet));
            LIB(r = xmpp_stanza_new_from_string(c2, cs[0]));
            if (r)
                LIB(xmpp_stanza_release(r));
            LIB(xmpp_ctx_free(c2));
            report_bypass(out);
            fprintf(out, "= ctx2 %s live %ld\n", r ? "ok" : "null", live());
        } else
            BAD();
    done:
        fclose(out);
        report_bypass(rout);
        fwrite(obuf, 1, olen, rout);
        __real_free(obuf);
        for (i = 0; i < 3; i++) {
            hbuf_free(&b[i]);
            __real_free(cs[i]);
        }
    }
    cleanup();
    if (conn_blocks != 0)
        fprintf(rout, "ORACLE-FAIL leak-conn %ld\n", conn_blocks);
    else if (live() != 0)
        fprintf(rout, "ORACLE-FAIL leak %ld\n", live());
    report_bypass(rout);
    LIB(xmpp_ctx_free(ctx));
    return 0;
}
