/* engine hnd (C11): the REAL handler.c driven through the public API on real connection objects.

   Two connections (0, 1) of one context; a table of callback functions S0..S7 (xmpp_handler),
   T0..T7 (xmpp_timed_handler), G0..G7 (xmpp_global_timed_handler) and four user-data slots.  A
   handler is identified by <fn>.<ud>.  Its behaviour is a script (op `beh`): on its k-th invocation
   (counted per <fn>.<ud>) it performs the actions of step k and returns 1 (`k`, keep) or 0 (`r`,
   remove); beyond the script: `k` without actions.

     add|adds C F U NS NAME TYPE     xmpp_handler_add / handler_add (system) on connection C
     addid|addids C F U ID           xmpp_id_handler_add / handler_add_id
     addt|addts C F U PERIOD         xmpp_timed_handler_add / handler_add_timed
     addg F U PERIOD                 xmpp_global_timed_handler_add
     del C F | delid C F ID | delt C F | delg F        the *_delete functions
     beh F U <step> ; <step> ...     step = k|r followed by actions:
                                       add C F U NS NAME TYPE | addid C F U ID | addt C F U P | addg F U P
                                       del C F | delid C F ID | delt C F | delg F | send C | tick N
     fire C NAME NS TYPE ID CHILDNS...   handler_fire_stanza(conn C, <NAME xmlns=NS type=TYPE id=ID><c xmlns=CHILDNS/>…)
     firetimed                       handler_fire_timed(ctx)
     tick N                          advance the virtual clock
     state C connected|connecting|disconnected  conn->state (the model's `connected` = state is CONNECTED)
     neg C 0|1                       conn->stream_negotiation_completed
     reset C USERONLY                handler_reset_timed
     sysdel C                        handler_system_delete_all
     clear                           release both connections (frees every handler), create new ones
   strings are hex, `-` = NULL.  Answer: `= ok | inv <invocations in order> | c0 … | c1 … | G[…] | now T`
   with every handler list read from the internal structures. */
#include "hconn.h"
#include "hash.h"

#define NF 8
#define NU 4
#define NC 2
#define MAXSTEP 16
#define MAXACT 8

typedef struct {
    int kind; /* 0 add 1 addid 2 addt 3 addg 4 del 5 delid 6 delt 7 delg 8 send 9 tick */
    int c, f, u;
    unsigned long n;
    char *s[3];
} act_t;

typedef struct {
    int ret;
    int nact;
    act_t act[MAXACT];
} step_t;

static step_t script[NF][NU][MAXSTEP];
static int nstep[NF][NU];
static int count[NF][NU];
static char ud_slot[NU];
static hconn_t *hc[NC];
static xmpp_ctx_t *g_ctx;
static char invlog[1 << 16];
static size_t invlen;

static int run_cb(char cls, int f, xmpp_conn_t *conn, xmpp_stanza_t *st, void *ud);

#define DEFS(i)                                                                      \
    static int S##i(xmpp_conn_t *c, xmpp_stanza_t *s, void *u) { return run_cb('s', i, c, s, u); } \
    static int T##i(xmpp_conn_t *c, void *u) { return run_cb('t', i, c, NULL, u); }  \
    static int G##i(xmpp_ctx_t *x, void *u) { (void)x; return run_cb('g', i, NULL, NULL, u); }
DEFS(0) DEFS(1) DEFS(2) DEFS(3) DEFS(4) DEFS(5) DEFS(6) DEFS(7)
static const xmpp_handler SF[NF] = {S0, S1, S2, S3, S4, S5, S6, S7};
static const xmpp_timed_handler TF[NF] = {T0, T1, T2, T3, T4, T5, T6, T7};
static const xmpp_global_timed_handler GF[NF] = {G0, G1, G2, G3, G4, G5, G6, G7};

static int conn_index(xmpp_conn_t *c)
{
    int i;
    for (i = 0; i < NC; i++)
        if (hc[i] && hc[i]->conn == c)
            return i;
    return -1;
}

static int act_misuse;

static void do_act(const act_t *a)
{
    xmpp_conn_t *c = (a->c >= 0 && a->c < NC && hc[a->c]) ? hc[a->c]->conn : NULL;
    void *ud = &ud_slot[a->u];
    if (!c && a->kind != 3 && a->kind != 7 && a->kind != 9) {
        /* a callback scripted to act on a connection while none exists (`firetimed0`): an invalid case */
        act_misuse = 1;
        return;
    }
    switch (a->kind) {
    case 0:
        xmpp_handler_add(c, SF[a->f], a->s[0], a->s[1], a->s[2], ud);
        break;
    case 1:
        xmpp_id_handler_add(c, SF[a->f], a->s[0], ud);
        break;
    case 2:
        xmpp_timed_handler_add(c, TF[a->f], a->n, ud);
        break;
    case 3:
        xmpp_global_timed_handler_add(g_ctx, GF[a->f], a->n, ud);
        break;
    case 4:
        xmpp_handler_delete(c, SF[a->f]);
        break;
    case 5:
        xmpp_id_handler_delete(c, SF[a->f], a->s[0]);
        break;
    case 6:
        xmpp_timed_handler_delete(c, TF[a->f]);
        break;
    case 7:
        xmpp_global_timed_handler_delete(g_ctx, GF[a->f]);
        break;
    case 8:
        hconn_cur = hc[a->c];
        xmpp_send_raw_string(c, "<a/>");
        break;
    case 9:
        hclock_ms += a->n;
        break;
    }
}

static int run_cb(char cls, int f, xmpp_conn_t *conn, xmpp_stanza_t *st, void *ud)
{
    int u = (int)((char *)ud - ud_slot);
    int k, i, ret = 1;
    if (invlen + 600 < sizeof(invlog)) {
        invlen += (size_t)snprintf(invlog + invlen, sizeof(invlog) - invlen, "%s%c", invlen ? "," : "", cls);
        if (cls != 'g')
            invlen += (size_t)snprintf(invlog + invlen, sizeof(invlog) - invlen, "%d", conn_index(conn));
        invlen += (size_t)snprintf(invlog + invlen, sizeof(invlog) - invlen, ":%d.%d", f, u);
        if (cls == 's') {
            /* what the callback can see of the stanza it was handed: its name */
            const char *nm = xmpp_stanza_get_name(st);
            size_t j, l = nm ? strlen(nm) : 0;
            invlog[invlen++] = ':';
            if (!nm)
                invlog[invlen++] = '-';
            else if (!l)
                invlog[invlen++] = '.';
            for (j = 0; j < l && j < 200; j++)
                invlen += (size_t)snprintf(invlog + invlen, sizeof(invlog) - invlen, "%02x", (unsigned char)nm[j]);
            invlog[invlen] = 0;
        } else
            invlen += (size_t)snprintf(invlog + invlen, sizeof(invlog) - invlen, "@%llu", (unsigned long long)hclock_ms);
    }
    k = count[f][u]++;
    if (k < nstep[f][u]) {
        const step_t *s = &script[f][u][k];
        ret = s->ret;
        for (i = 0; i < s->nact; i++)
            do_act(&s->act[i]);
    }
    return ret;
}

/* ---- parsing ---- */

static char *hexstr(const char *tok, int *bad)
{
    hbuf b;
    char *s;
    if (hparse(tok, &b) < 0) {
        *bad = 1;
        return NULL;
    }
    if (!b.p)
        return NULL;
    if (memchr(b.p, 0, b.n)) {
        *bad = 1; /* C strings only */
        hbuf_free(&b);
        return NULL;
    }
    s = hcstr(&b);
    hbuf_free(&b);
    return s;
}

static int num(const char *t, int lim)
{
    char *e;
    long v = strtol(t, &e, 10);
    if (*e || e == t || v < 0 || v >= lim)
        return -1;
    return (int)v;
}

static int bignum(const char *t, unsigned long *out)
{
    char *e;
    if (!*t || *t == '-')
        return -1;
    *out = strtoul(t, &e, 10);
    return *e ? -1 : 0;
}

static void act_free(act_t *a)
{
    int i;
    for (i = 0; i < 3; i++) {
        free(a->s[i]);
        a->s[i] = NULL;
    }
}

/* parse one action starting at tok[0]; returns tokens consumed or -1 */
static int parse_act(char **tok, int n, act_t *a)
{
    int bad = 0;
    memset(a, 0, sizeof(*a));
    if (n < 1)
        return -1;
#define NEED(k) \
    if (n < (k))  \
    return -1
    if (!strcmp(tok[0], "add")) {
        NEED(7);
        a->kind = 0;
        a->c = num(tok[1], NC), a->f = num(tok[2], NF), a->u = num(tok[3], NU);
        a->s[0] = hexstr(tok[4], &bad), a->s[1] = hexstr(tok[5], &bad), a->s[2] = hexstr(tok[6], &bad);
        if (a->c < 0 || a->f < 0 || a->u < 0 || bad)
            return -1;
        return 7;
    }
    if (!strcmp(tok[0], "addid")) {
        NEED(5);
        a->kind = 1;
        a->c = num(tok[1], NC), a->f = num(tok[2], NF), a->u = num(tok[3], NU);
        a->s[0] = hexstr(tok[4], &bad);
        if (a->c < 0 || a->f < 0 || a->u < 0 || bad || !a->s[0])
            return -1;
        return 5;
    }
    if (!strcmp(tok[0], "addt")) {
        NEED(5);
        a->kind = 2;
        a->c = num(tok[1], NC), a->f = num(tok[2], NF), a->u = num(tok[3], NU);
        if (a->c < 0 || a->f < 0 || a->u < 0 || bignum(tok[4], &a->n))
            return -1;
        return 5;
    }
    if (!strcmp(tok[0], "addg")) {
        NEED(4);
        a->kind = 3;
        a->f = num(tok[1], NF), a->u = num(tok[2], NU);
        if (a->f < 0 || a->u < 0 || bignum(tok[3], &a->n))
            return -1;
        return 4;
    }
    if (!strcmp(tok[0], "del") || !strcmp(tok[0], "delt")) {
        NEED(3);
        a->kind = tok[0][3] ? 6 : 4;
        a->c = num(tok[1], NC), a->f = num(tok[2], NF);
        if (a->c < 0 || a->f < 0)
            return -1;
        return 3;
    }
    if (!strcmp(tok[0], "delid")) {
        NEED(4);
        a->kind = 5;
        a->c = num(tok[1], NC), a->f = num(tok[2], NF);
        a->s[0] = hexstr(tok[3], &bad);
        if (a->c < 0 || a->f < 0 || bad || !a->s[0])
            return -1;
        return 4;
    }
    if (!strcmp(tok[0], "delg")) {
        NEED(2);
        a->kind = 7;
        a->f = num(tok[1], NF);
        if (a->f < 0)
            return -1;
        return 2;
    }
    if (!strcmp(tok[0], "send")) {
        NEED(2);
        a->kind = 8;
        a->c = num(tok[1], NC);
        if (a->c < 0)
            return -1;
        return 2;
    }
    if (!strcmp(tok[0], "tick")) {
        NEED(2);
        a->kind = 9;
        if (bignum(tok[1], &a->n))
            return -1;
        return 2;
    }
    return -1;
}

static void clear_scripts(void)
{
    int f, u, k, i;
    for (f = 0; f < NF; f++)
        for (u = 0; u < NU; u++) {
            for (k = 0; k < nstep[f][u]; k++)
                for (i = 0; i < script[f][u][k].nact; i++)
                    act_free(&script[f][u][k].act[i]);
            nstep[f][u] = 0;
            count[f][u] = 0;
        }
}

/* ---- state dump ---- */

static void pstr(FILE *out, const char *s)
{
    if (!s)
        fputc('-', out);
    else
        hprint_hex(out, (const unsigned char *)s, strlen(s));
}

static int fn_index(xmpp_void_handler h, char cls)
{
    int i;
    for (i = 0; i < NF; i++)
        if ((cls == 's' && h == (xmpp_void_handler)SF[i]) || (cls == 't' && h == (xmpp_void_handler)TF[i]) ||
            (cls == 'g' && h == (xmpp_void_handler)GF[i]))
            return i;
    return -1;
}

static void pitem_head(FILE *out, xmpp_handlist_t *it, char cls)
{
    fprintf(out, "%d/%d/%c/%c", fn_index(it->handler, cls), (int)((char *)it->userdata - ud_slot),
            it->user_handler ? 'u' : 's', it->enabled ? 'e' : 'd');
}

static int cmpstr(const void *a, const void *b)
{
    return strcmp(*(const char *const *)a, *(const char *const *)b);
}

static void dump_conn(FILE *out, int ci)
{
    xmpp_conn_t *c = hc[ci]->conn;
    xmpp_handlist_t *it;
    hash_iterator_t *iter;
    const char *key;
    const char *keys[256];
    int nk = 0, i, first;
    fprintf(out, " | c%d %c n%d q%d H[", ci, c->state == XMPP_STATE_CONNECTED ? 'c' : 'd',
            c->stream_negotiation_completed, c->send_queue_len);
    for (it = c->handlers; it; it = it->next) {
        if (it != c->handlers)
            fputc(',', out);
        pitem_head(out, it, 's');
        fputc('/', out);
        pstr(out, it->u.ns);
        fputc('/', out);
        pstr(out, it->u.name);
        fputc('/', out);
        pstr(out, it->u.type);
    }
    fprintf(out, "] I[");
    iter = hash_iter_new(c->id_handlers);
    while ((key = hash_iter_next(iter)))
        if (nk < 256 && hash_get(c->id_handlers, key))
            keys[nk++] = key;
    qsort(keys, (size_t)nk, sizeof(keys[0]), cmpstr);
    first = 1;
    for (i = 0; i < nk; i++) {
        xmpp_handlist_t *head = hash_get(c->id_handlers, keys[i]);
        if (!first)
            fputc(';', out);
        first = 0;
        pstr(out, keys[i]);
        fputc('=', out);
        for (it = head; it; it = it->next) {
            if (it != head)
                fputc(',', out);
            pitem_head(out, it, 's');
            if (strcmp(it->u.id, keys[i]))
                fprintf(out, "/ID-MISMATCH");
        }
    }
    hash_iter_release(iter);
    fprintf(out, "] T[");
    for (it = c->timed_handlers; it; it = it->next) {
        if (it != c->timed_handlers)
            fputc(',', out);
        pitem_head(out, it, 't');
        fprintf(out, "/%lu/%llu", it->u.period, (unsigned long long)it->u.last_stamp);
    }
    fputc(']', out);
}

static void tail(FILE *out)
{
    xmpp_handlist_t *it;
    int i;
    fprintf(out, " | inv %s", invlen ? invlog : "-");
    invlen = 0;
    invlog[0] = 0;
    for (i = 0; i < NC; i++)
        dump_conn(out, i);
    fprintf(out, " | G[");
    for (it = g_ctx->timed_handlers; it; it = it->next) {
        if (it != g_ctx->timed_handlers)
            fputc(',', out);
        pitem_head(out, it, 'g');
        fprintf(out, "/%lu/%llu", it->u.period, (unsigned long long)it->u.last_stamp);
    }
    fprintf(out, "] | now %llu\n", (unsigned long long)hclock_ms);
}

static void conns_new(void)
{
    int i;
    for (i = 0; i < NC; i++)
        hc[i] = hconn_new(g_ctx);
}

static void conns_free(void)
{
    int i;
    for (i = 0; i < NC; i++)
        if (hc[i]) {
            hconn_free(hc[i], 0);
            hc[i] = NULL;
        }
}

static void case_end(FILE *out)
{
    int f;
    if (!g_ctx)
        return;
    conns_free();
    /* xmpp_ctx_free does not free the context-wide timed handlers: delete them through the API */
    for (f = 0; f < NF; f++)
        xmpp_global_timed_handler_delete(g_ctx, GF[f]);
    xmpp_ctx_free(g_ctx);
    g_ctx = NULL;
    clear_scripts();
    if (hmem_live != 0) {
        fprintf(out, "ORACLE-FAIL leak %ld\n", hmem_live);
        hmem_live = 0;
    }
}

static void case_begin(void)
{
    g_ctx = xmpp_ctx_new(&hmem, &hlog_quiet);
    hclock_ms = 1000000;
    invlen = 0;
    invlog[0] = 0;
    conns_new();
}

int eng_hnd(FILE *in, FILE *out)
{
    char *line;
    hselect_mode = 0;
    while ((line = hreadline(in))) {
        char *tok[256];
        int n = hsplit(line, tok, 256);
        int bad = 0, c, f, u;
        if (n == 1 && !strcmp(tok[0], "case")) {
            case_end(out);
            /* finished cases must survive a sanitizer abort in a later one */
            fflush(out);
            case_begin();
            fprintf(out, "= case\n");
            continue;
        }
        if (!g_ctx)
            case_begin();
        if (n >= 1 && !strcmp(tok[0], "beh")) {
            step_t steps[MAXSTEP];
            int ns = 0, i = 3, k, j;
            memset(steps, 0, sizeof(steps));
            f = n >= 3 ? num(tok[1], NF) : -1;
            u = n >= 3 ? num(tok[2], NU) : -1;
            if (f < 0 || u < 0)
                bad = 1;
            while (!bad && i < n) {
                step_t *s;
                if (ns >= MAXSTEP || (strcmp(tok[i], "k") && strcmp(tok[i], "r"))) {
                    bad = 1;
                    break;
                }
                s = &steps[ns++];
                s->ret = tok[i][0] == 'k';
                i++;
                while (i < n && strcmp(tok[i], ";")) {
                    int used;
                    if (s->nact >= MAXACT) {
                        bad = 1;
                        break;
                    }
                    used = parse_act(tok + i, n - i, &s->act[s->nact]);
                    s->nact++;
                    if (used < 0) {
                        bad = 1;
                        break;
                    }
                    i += used;
                }
                if (i < n && !bad)
                    i++; /* ';' */
            }
            if (bad) {
                for (k = 0; k < ns; k++)
                    for (j = 0; j < steps[k].nact; j++)
                        act_free(&steps[k].act[j]);
                fprintf(out, "= bad-op\n");
                continue;
            }
            for (k = 0; k < nstep[f][u]; k++)
                for (j = 0; j < script[f][u][k].nact; j++)
                    act_free(&script[f][u][k].act[j]);
            memcpy(script[f][u], steps, sizeof(steps));
            nstep[f][u] = ns;
            fprintf(out, "= ok");
        } else if (n >= 6 && !strcmp(tok[0], "fire")) {
            xmpp_stanza_t *st;
            char *name, *ns_, *type, *id;
            int i;
            c = num(tok[1], NC);
            name = hexstr(tok[2], &bad);
            ns_ = hexstr(tok[3], &bad);
            type = hexstr(tok[4], &bad);
            id = hexstr(tok[5], &bad);
            if (c < 0 || bad || !name) {
                free(name), free(ns_), free(type), free(id);
                fprintf(out, "= bad-op\n");
                continue;
            }
            st = xmpp_stanza_new(g_ctx);
            xmpp_stanza_set_name(st, name);
            if (ns_)
                xmpp_stanza_set_ns(st, ns_);
            if (type)
                xmpp_stanza_set_type(st, type);
            if (id)
                xmpp_stanza_set_id(st, id);
            for (i = 6; i < n && !bad; i++) {
                char *cns = hexstr(tok[i], &bad);
                xmpp_stanza_t *ch = xmpp_stanza_new(g_ctx);
                xmpp_stanza_set_name(ch, "c");
                if (cns)
                    xmpp_stanza_set_ns(ch, cns);
                xmpp_stanza_add_child(st, ch);
                xmpp_stanza_release(ch);
                free(cns);
            }
            free(name), free(ns_), free(type), free(id);
            if (bad) {
                xmpp_stanza_release(st);
                fprintf(out, "= bad-op\n");
                continue;
            }
            hconn_cur = hc[c];
            handler_fire_stanza(hc[c]->conn, st);
            xmpp_stanza_release(st);
            fprintf(out, "= ok");
        } else if (n == 1 && !strcmp(tok[0], "firetimed")) {
            handler_fire_timed(g_ctx);
            fprintf(out, "= ok");
        } else if (n == 1 && !strcmp(tok[0], "firetimed0")) {
            /* the context without any connection object: context-wide handlers still run */
            conns_free();
            act_misuse = 0;
            handler_fire_timed(g_ctx);
            conns_new();
            fprintf(out, act_misuse ? "= bad" : "= ok");
        } else if (n == 3 && !strcmp(tok[0], "state") && (c = num(tok[1], NC)) >= 0 &&
                   (!strcmp(tok[2], "connected") || !strcmp(tok[2], "disconnected") ||
                    !strcmp(tok[2], "connecting"))) {
            /* all three values of the state enum: "only while connected" is not "unless disconnected" */
            hc[c]->conn->state = !strcmp(tok[2], "connected")    ? XMPP_STATE_CONNECTED
                                 : !strcmp(tok[2], "connecting") ? XMPP_STATE_CONNECTING
                                                                 : XMPP_STATE_DISCONNECTED;
            fprintf(out, "= ok");
        } else if (n == 3 && !strcmp(tok[0], "neg") && (c = num(tok[1], NC)) >= 0 && num(tok[2], 2) >= 0) {
            hc[c]->conn->stream_negotiation_completed = num(tok[2], 2);
            fprintf(out, "= ok");
        } else if (n == 3 && !strcmp(tok[0], "reset") && (c = num(tok[1], NC)) >= 0 && num(tok[2], 2) >= 0) {
            handler_reset_timed(hc[c]->conn, num(tok[2], 2));
            fprintf(out, "= ok");
        } else if (n == 2 && !strcmp(tok[0], "sysdel") && (c = num(tok[1], NC)) >= 0) {
            handler_system_delete_all(hc[c]->conn);
            fprintf(out, "= ok");
        } else if (n == 1 && !strcmp(tok[0], "clear")) {
            conns_free();
            conns_new();
            fprintf(out, "= ok");
        } else if (n == 7 && (!strcmp(tok[0], "add") || !strcmp(tok[0], "adds"))) {
            act_t a;
            int sys = tok[0][3] == 's';
            tok[0] = "add";
            if (parse_act(tok, n, &a) < 0) {
                act_free(&a);
                fprintf(out, "= bad-op\n");
                continue;
            }
            if (sys)
                handler_add(hc[a.c]->conn, SF[a.f], a.s[0], a.s[1], a.s[2], &ud_slot[a.u]);
            else
                do_act(&a);
            act_free(&a);
            fprintf(out, "= ok");
        } else {
            /* remaining ops share the action syntax */
            act_t a;
            int sys = 0, used;
            if (n >= 1 && (!strcmp(tok[0], "addids") || !strcmp(tok[0], "addts"))) {
                sys = 1;
                tok[0] = tok[0][3] == 'i' ? "addid" : "addt";
            }
            used = parse_act(tok, n, &a);
            if (used != n || a.kind == 0) {
                act_free(&a);
                fprintf(out, "= bad-op\n");
                continue;
            }
            if (sys && a.kind == 1)
                handler_add_id(hc[a.c]->conn, SF[a.f], a.s[0], &ud_slot[a.u]);
            else if (sys && a.kind == 2)
                handler_add_timed(hc[a.c]->conn, TF[a.f], a.n, &ud_slot[a.u]);
            else
                do_act(&a);
            act_free(&a);
            fprintf(out, "= ok");
        }
        tail(out);
    }
    case_end(out);
    return 0;
}
