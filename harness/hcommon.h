/* Shared helpers of the correspondence harness (DESIGN.md Appendix A). */
#ifndef HCOMMON_H
#define HCOMMON_H

#include <stddef.h>
#include <stdint.h>
#include <stdio.h>
#include <stdlib.h>
#include <string.h>
#include <sys/select.h>

#include "strophe.h"
#include "common.h"

/* ---- instrumented allocator ---- */
extern unsigned char hmem_fill;      /* byte pattern written into fresh blocks */
extern long hmem_live;               /* live blocks */
extern long hmem_allocs;             /* total allocations */
extern long hmem_fail_at;            /* if >0: the N-th allocation from now fails */
extern const xmpp_mem_t hmem;
void hmem_report_leaks(FILE *f);
int hmem_is_live(const void *p);

/* ---- quiet logger ---- */
extern const xmpp_log_t hlog_quiet;

/* ---- line protocol ---- */
typedef struct {
    unsigned char *p; /* NULL = absent ("-") */
    size_t n;
} hbuf;

/* parse one hex token ("." = empty, "-" = absent). Returned memory is an exact-size
   malloc copy (n bytes; for n == 0 a 1-byte block) so ASan sees over-reads. */
int hparse(const char *tok, hbuf *out);
void hbuf_free(hbuf *b);
/* exact-size NUL-terminated copy (n+1 bytes) */
char *hcstr(const hbuf *b);
void hprint_hex(FILE *f, const unsigned char *p, size_t n);

/* read next non-empty, non-comment line into a growing buffer; returns NULL at EOF */
char *hreadline(FILE *f);
/* split in place on single spaces; returns count */
int hsplit(char *line, char **tok, int max);

/* ---- virtual clock / select ---- */
extern uint64_t hclock_ms;
extern int hselect_mode;
extern long hselect_calls;
/* if non-NULL, __wrap_select delegates to this function (engine-specific readiness script);
   NULL (default) keeps the hselect_mode behaviour */
extern int (*hselect_hook)(int nfds, fd_set *rfds, fd_set *wfds, fd_set *efds, struct timeval *tv);

typedef int (*engine_fn)(FILE *in, FILE *out);

#endif
