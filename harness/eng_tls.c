/* HARNESS wraps: socket,connect,getaddrinfo,freeaddrinfo,SSL_connect,tls_new,tls_start */
/* engine tls (C08): a TLS session is only trusted if the certificate verifies or the user said so.

   The REAL tls_openssl.c / tls.c / conn.c / auth.c / event.c / sock.c against an in-process TLS
   server: the library's socket() is answered with one end of a socketpair(2), the other end is
   driven by OpenSSL's own SSL_accept from inside the select() hook (single-threaded, non-blocking,
   deterministic).  Certificates are built per case with the OpenSSL C API from the description in
   the `cfg` op (keys are generated once per process).  The CA file / CA directory live in a mkdtemp
   directory next to the harness binary (fallback TMPDIR) only while a `start` op runs; the
   directory is removed at exit.

   cfg dom=H path=s|l|d flags=N cb=MODE ca=MODE srv=MODE leaf=LEAF [inter=INTER]   -> = cfg ok
        dom    XMPP domain (jid = user@dom)
        path   s = STARTTLS (xmpp_connect_client, the scripted server offers <starttls/> and answers
               <proceed/>), l = legacy SSL (flag LEGACY_SSL, TLS from the first byte), d = direct
               (xmpp_connect_raw + xmpp_conn_tls_start after RAW_CONNECT)
        flags  comma list of xmpp_conn_set_flags() words, applied in this order (LEGACY_SSL is added to
               every word for path l); the last one must be accepted
        cb     comma list, one xmpp_conn_set_certfail_handler call each: none (NULL) | acc | rej |
               kN (accept the first N invocations) | rN (reject invocation N, 0-based) | vN (answer
               the integer N every time)
        A `cfg` on a connection object that has been used and is DISCONNECTED again starts another
        round on the same object (reconnect); a CA file / path cannot be unset.
        ca     none | file | path | env | other | missing
               (file: xmpp_conn_set_cafile(test root); path: xmpp_conn_set_capath(hashed dir);
               env: nothing set, SSL_CERT_FILE names the test root (default store); other: cafile
               holding a different root; missing: cafile that does not exist)
        srv    ok | close (half-close on ClientHello) | garbage (answers the ClientHello with text) |
               mute (never answers the ClientHello; the harness half-closes after 300 idle select calls)
        LEAF   ISS;NB;NA;CN;SANS   ISS = root | inter | interx (intermediate not sent) | unk (unknown
               root, not sent) | unkc (unknown root, sent) | self;  NB/NA = validity start/end in
               days relative to now;  CN = hex or -;  SANS = - or comma list of d:HEX (dNSName),
               x:HEX (id-on-xmppAddr otherName), i:HEX (iPAddress)
        INTER  NB;NA;CA    validity of the intermediate and its basicConstraints CA bit
   start        runs the connection until the TLS attempt is over (+3 loop iterations)
        -> lines `vf OK:DEPTH:ERR,…` (recorded parameter: every verify-callback invocation OpenSSL
           makes for this peer under this configuration when every failure is accepted — obtained by
           a second X509_verify_cert over the same store / parameters / chain), `hr ERR` (recorded:
           SSL_get_error class of the failed handshake, 0 = handshake completed)
        -> = start att=A new=N cfg=VMODE:HASCB:HOSTFLAGS:HOSTS:HOST:SNI calls=OK:DEPTH:ERR:RET,…
             uh=DEPTH:ERR:ANS,… good=G hs=H rc=R failed=F tls=T intf=I sec=S st=ST ev=EV clear=CL enc=CL
           (or `= start connect-failed RC` when xmpp_connect_* refuses)
        att  number of tls_new calls; new = tls_new returned an object; cfg = read back from the SSL
        object at the first SSL_connect; calls = verify-callback invocations (what _tls_verify
        returned); uh = invocations of the user's certfail handler; good = OpenSSL reported no failure
        at all in the accept-all run (- = no certificate was looked at); hs = tls_start result; rc =
        xmpp_conn_tls_start result (path d only); sec = xmpp_conn_is_secured; failed =
        conn->tls_failed; tls = conn->tls != NULL; intf = tls | sock | other; clear / enc = what
        the server received in the clear / through TLS since the previous report, classified:
        hdr starttls auth close probe junk x:<name>
   probe [raw]  xmpp_send_raw_string("<probe/>") (raw: xmpp_send_raw, which is not gated by the stream
                negotiation) + 2 loop iterations -> = io sec= st= ev= clear= enc=
   tick MS      virtual clock += MS, 2 loop iterations               -> = io …
   drop         conn_disconnect() (what every fatal error does) + 1 loop iteration -> = io …
   end          release everything -> = end live=<blocks still allocated>
   ORACLE-FAIL lines: hyp-openssl <what> (the recorded run contradicts H-openssl), errstr,
   wrong-cert, stall, setup. */
#include "hcommon.h"

#include <arpa/inet.h>
#include <errno.h>
#include <fcntl.h>
#include <netdb.h>
#include <netinet/in.h>
#include <signal.h>
#include <stdarg.h>
#include <sys/select.h>
#include <sys/socket.h>
#include <sys/stat.h>
#include <unistd.h>

#include <openssl/asn1.h>
#include <openssl/bio.h>
#include <openssl/ec.h>
#include <openssl/err.h>
#include <openssl/evp.h>
#include <openssl/pem.h>
#include <openssl/ssl.h>
#include <openssl/x509.h>
#include <openssl/x509_vfy.h>
#include <openssl/x509v3.h>

static int tls_active = 0;
static FILE *t_out;
static xmpp_conn_t *e_conn;
static int g_connect_calls, g_hs_done; /* SSL_connect calls / tls_start finished, current case */

/* ------------------------------------------------------------------------------------------ */
/* growing byte buffer */
typedef struct {
    unsigned char *p;
    size_t n, cap, pos;
} gb;

static void gb_add(gb *b, const void *d, size_t n)
{
    if (b->n + n + 1 > b->cap) {
        b->cap = (b->n + n + 1) * 2;
        b->p = realloc(b->p, b->cap);
    }
    memcpy(b->p + b->n, d, n);
    b->n += n;
    b->p[b->n] = 0;
}

static void gb_reset(gb *b)
{
    free(b->p);
    memset(b, 0, sizeof(*b));
}

/* ------------------------------------------------------------------------------------------ */
/* certificate zoo */
enum { K_ROOT, K_OTHER, K_UNK, K_INTER, K_LEAF, K_N };
static EVP_PKEY *z_key[K_N];
static X509 *z_root, *z_other, *z_unk;
static char z_dir[512];
static char z_cafile[600], z_otherfile[600], z_capath[600], z_missing[600], z_nofile[600];

static X509_NAME *mk_name(const char *cn, const unsigned char *cnb, int cnlen)
{
    X509_NAME *n = X509_NAME_new();
    X509_NAME_add_entry_by_txt(n, "O", MBSTRING_ASC, (const unsigned char *)"verif zoo", -1, -1, 0);
    if (cn)
        X509_NAME_add_entry_by_txt(n, "CN", MBSTRING_ASC, (const unsigned char *)cn, -1, -1, 0);
    else if (cnb)
        X509_NAME_add_entry_by_txt(n, "CN", MBSTRING_ASC, cnb, cnlen, -1, 0);
    return n;
}

static void add_ext(X509 *cert, X509 *issuer, int nid, const char *val)
{
    X509V3_CTX c;
    X509_EXTENSION *e;
    X509V3_set_ctx_nodb(&c);
    X509V3_set_ctx(&c, issuer, cert, NULL, NULL, 0);
    e = X509V3_EXT_conf_nid(NULL, &c, nid, val);
    if (e) {
        X509_add_ext(cert, e, -1);
        X509_EXTENSION_free(e);
    }
}

static long z_serial = 1000;

/* subject name, validity in days relative to now, subject key, issuer (cert + key; NULL = self) */
static X509 *mk_cert(X509_NAME *subj, long nb_days, long na_days, EVP_PKEY *key, X509 *iss,
                     EVP_PKEY *isskey, int ca, GENERAL_NAMES *sans)
{
    X509 *c = X509_new();
    X509_set_version(c, 2);
    ASN1_INTEGER_set(X509_get_serialNumber(c), z_serial++);
    X509_set_subject_name(c, subj);
    X509_set_issuer_name(c, iss ? X509_get_subject_name(iss) : subj);
    X509_time_adj_ex(X509_getm_notBefore(c), (int)nb_days, 0, NULL);
    X509_time_adj_ex(X509_getm_notAfter(c), (int)na_days, 0, NULL);
    X509_set_pubkey(c, key);
    if (ca) {
        add_ext(c, iss ? iss : c, NID_basic_constraints, "critical,CA:TRUE");
        add_ext(c, iss ? iss : c, NID_key_usage, "critical,keyCertSign,cRLSign");
    } else {
        add_ext(c, iss ? iss : c, NID_basic_constraints, "critical,CA:FALSE");
        add_ext(c, iss ? iss : c, NID_key_usage, "critical,digitalSignature,keyEncipherment");
        add_ext(c, iss ? iss : c, NID_ext_key_usage, "serverAuth");
    }
    add_ext(c, iss ? iss : c, NID_subject_key_identifier, "hash");
    if (sans && sk_GENERAL_NAME_num(sans) > 0)
        X509_add1_ext_i2d(c, NID_subject_alt_name, sans, 0, X509V3_ADD_DEFAULT);
    X509_sign(c, isskey ? isskey : key, EVP_sha256());
    return c;
}

static void write_pem(const char *path, X509 *c)
{
    FILE *f = fopen(path, "w");
    if (f) {
        PEM_write_X509(f, c);
        fclose(f);
    }
}

static void zoo_files_remove(void)
{
    char p[700];
    if (!z_dir[0])
        return;
    unlink(z_cafile);
    unlink(z_otherfile);
    if (z_root) {
        snprintf(p, sizeof(p), "%s/%08lx.0", z_capath, X509_subject_name_hash(z_root));
        unlink(p);
    }
    rmdir(z_capath);
}

static void zoo_cleanup(void)
{
    if (!z_dir[0])
        return;
    zoo_files_remove();
    rmdir(z_dir);
    z_dir[0] = 0;
}

/* a private directory: next to the binary (the build directory), else TMPDIR */
static int zoo_dir_make(void)
{
    char exe[400];
    ssize_t k = readlink("/proc/self/exe", exe, sizeof(exe) - 1);
    z_dir[0] = 0;
    if (k > 0) {
        char *s;
        exe[k] = 0;
        if (strstr(exe, " (deleted)"))
            *strstr(exe, " (deleted)") = 0;
        s = strrchr(exe, '/');
        if (s) {
            *s = 0;
            snprintf(z_dir, sizeof(z_dir), "%s/tlszoo.XXXXXX", exe);
            if (!mkdtemp(z_dir))
                z_dir[0] = 0;
        }
    }
    if (!z_dir[0]) {
        const char *t = getenv("TMPDIR");
        snprintf(z_dir, sizeof(z_dir), "%s/tlszoo.XXXXXX", t && *t ? t : "/tmp");
        if (!mkdtemp(z_dir)) {
            z_dir[0] = 0;
            return -1;
        }
    }
    snprintf(z_cafile, sizeof(z_cafile), "%s/root.pem", z_dir);
    snprintf(z_otherfile, sizeof(z_otherfile), "%s/other.pem", z_dir);
    snprintf(z_capath, sizeof(z_capath), "%s/certs", z_dir);
    snprintf(z_missing, sizeof(z_missing), "%s/missing.pem", z_dir);
    snprintf(z_nofile, sizeof(z_nofile), "%s/no-default-store", z_dir);
    return 0;
}

/* the CA files exist only while a connection attempt runs (the build directory may be pruned by a
   concurrent build: the directory is made again when it has gone) */
static int zoo_files_write(void)
{
    char p[700];
    if ((!z_dir[0] || access(z_dir, W_OK) != 0) && zoo_dir_make() < 0)
        return -1;
    write_pem(z_cafile, z_root);
    write_pem(z_otherfile, z_other);
    mkdir(z_capath, 0700);
    snprintf(p, sizeof(p), "%s/%08lx.0", z_capath, X509_subject_name_hash(z_root));
    write_pem(p, z_root);
    return access(z_cafile, R_OK) == 0 && access(p, R_OK) == 0 ? 0 : -1;
}

static int zoo_init(void)
{
    int i;
    X509_NAME *n;
    if (z_root)
        return 0;
    for (i = 0; i < K_N; i++) {
        z_key[i] = EVP_EC_gen("P-256");
        if (!z_key[i])
            return -1;
    }
    n = mk_name("verif test root", NULL, 0);
    z_root = mk_cert(n, -30, 3650, z_key[K_ROOT], NULL, NULL, 1, NULL);
    X509_NAME_free(n);
    n = mk_name("verif other root", NULL, 0);
    z_other = mk_cert(n, -30, 3650, z_key[K_OTHER], NULL, NULL, 1, NULL);
    X509_NAME_free(n);
    n = mk_name("verif unknown root", NULL, 0);
    z_unk = mk_cert(n, -30, 3650, z_key[K_UNK], NULL, NULL, 1, NULL);
    X509_NAME_free(n);
    if (zoo_dir_make() < 0)
        return -1;
    atexit(zoo_cleanup);
    return 0;
}

/* ------------------------------------------------------------------------------------------ */
/* case configuration */
enum { P_STARTTLS, P_LEGACY, P_DIRECT };
enum { CB_NONE, CB_ACC, CB_REJ, CB_K, CB_R, CB_V };
enum { CA_NONE, CA_FILE, CA_PATH, CA_ENV, CA_OTHER, CA_MISSING };
enum { SRV_OK, SRV_CLOSE, SRV_GARBAGE, SRV_MUTE };

#define MAXSEQ 8
static struct {
    int set;
    char *domain;
    int path, cbmode, cbarg, ca, srv;
    long flags[MAXSEQ]; /* successive xmpp_conn_set_flags words */
    int nflags;
    int cbseq[MAXSEQ]; /* successive xmpp_conn_set_certfail_handler calls: 1 = handler, 0 = NULL */
    int ncbseq;
    X509 *leaf, *inter;
    int send_inter, send_unk;
} cfg;
static int prev_ca = -1; /* CA mode of the previous round on the same connection object */

static void cfg_reset(void)
{
    free(cfg.domain);
    X509_free(cfg.leaf);
    X509_free(cfg.inter);
    memset(&cfg, 0, sizeof(cfg));
}

static int hex_tok(const char *s, hbuf *b)
{
    return hparse(s, b);
}

static GENERAL_NAMES *parse_sans(char *s)
{
    GENERAL_NAMES *gens = sk_GENERAL_NAME_new_null();
    char *p = s;
    if (!strcmp(s, "-"))
        return gens;
    while (*p) {
        char *q = strchr(p, ',');
        hbuf b;
        GENERAL_NAME *g;
        if (q)
            *q = 0;
        if (strlen(p) < 3 || p[1] != ':' || hex_tok(p + 2, &b) < 0 || !b.p) {
            sk_GENERAL_NAME_pop_free(gens, GENERAL_NAME_free);
            return NULL;
        }
        g = GENERAL_NAME_new();
        if (p[0] == 'd') {
            ASN1_IA5STRING *ia = ASN1_IA5STRING_new();
            ASN1_STRING_set(ia, b.p, (int)b.n);
            GENERAL_NAME_set0_value(g, GEN_DNS, ia);
        } else if (p[0] == 'i') {
            ASN1_OCTET_STRING *o = ASN1_OCTET_STRING_new();
            ASN1_OCTET_STRING_set(o, b.p, (int)b.n);
            GENERAL_NAME_set0_value(g, GEN_IPADD, o);
        } else if (p[0] == 'x') {
            ASN1_UTF8STRING *u = ASN1_UTF8STRING_new();
            ASN1_TYPE *t = ASN1_TYPE_new();
            ASN1_STRING_set(u, b.p, (int)b.n);
            ASN1_TYPE_set(t, V_ASN1_UTF8STRING, u);
            GENERAL_NAME_set0_othername(g, OBJ_txt2obj("1.3.6.1.5.5.7.8.5", 1), t);
        } else {
            GENERAL_NAME_free(g);
            hbuf_free(&b);
            sk_GENERAL_NAME_pop_free(gens, GENERAL_NAME_free);
            return NULL;
        }
        hbuf_free(&b);
        sk_GENERAL_NAME_push(gens, g);
        if (!q)
            break;
        p = q + 1;
    }
    return gens;
}

/* splits on ';' in place */
static int split_semi(char *s, char **f, int max)
{
    int n = 0;
    char *p = s;
    while (n < max) {
        f[n++] = p;
        p = strchr(p, ';');
        if (!p)
            break;
        *p++ = 0;
    }
    return n;
}

static int build_chain(char *leafdesc, char *interdesc)
{
    char *lf[5], *inf[3];
    long inb = -10, ina = 3000;
    int ica = 1;
    X509 *iss = NULL;
    EVP_PKEY *isskey = NULL;
    X509_NAME *subj;
    GENERAL_NAMES *sans;
    hbuf cn = {NULL, 0};
    if (split_semi(leafdesc, lf, 5) != 5)
        return -1;
    if (interdesc) {
        if (split_semi(interdesc, inf, 3) != 3)
            return -1;
        inb = strtol(inf[0], NULL, 10);
        ina = strtol(inf[1], NULL, 10);
        ica = atoi(inf[2]);
    }
    if (!strcmp(lf[0], "root")) {
        iss = z_root;
        isskey = z_key[K_ROOT];
    } else if (!strcmp(lf[0], "inter") || !strcmp(lf[0], "interx")) {
        X509_NAME *n = mk_name("verif intermediate", NULL, 0);
        cfg.inter = mk_cert(n, inb, ina, z_key[K_INTER], z_root, z_key[K_ROOT], ica, NULL);
        X509_NAME_free(n);
        iss = cfg.inter;
        isskey = z_key[K_INTER];
        cfg.send_inter = !strcmp(lf[0], "inter");
    } else if (!strcmp(lf[0], "unk") || !strcmp(lf[0], "unkc")) {
        iss = z_unk;
        isskey = z_key[K_UNK];
        cfg.send_unk = !strcmp(lf[0], "unkc");
    } else if (!strcmp(lf[0], "self")) {
        iss = NULL;
    } else
        return -1;
    if (strcmp(lf[3], "-") != 0 && (hex_tok(lf[3], &cn) < 0 || !cn.p))
        return -1;
    sans = parse_sans(lf[4]);
    if (!sans) {
        hbuf_free(&cn);
        return -1;
    }
    subj = mk_name(NULL, cn.p, (int)cn.n);
    cfg.leaf = mk_cert(subj, strtol(lf[1], NULL, 10), strtol(lf[2], NULL, 10), z_key[K_LEAF], iss,
                       isskey, 0, sans);
    X509_NAME_free(subj);
    sk_GENERAL_NAME_pop_free(sans, GENERAL_NAME_free);
    hbuf_free(&cn);
    return cfg.leaf ? 0 : -1;
}

/* ------------------------------------------------------------------------------------------ */
/* the in-process server */
enum { S_NONE, S_PLAIN, S_TLS_WAIT, S_TLS_ACCEPT, S_TLS_UP, S_RAW, S_EOF };

static struct {
    int cfd, sfd; /* client end (handed to the library), server end */
    int state;
    int hdr_answered, starttls_answered, enc_hdr_answered;
    int accept_result; /* 0 not finished, 1 ok, -1 failed */
    SSL_CTX *sctx;
    SSL *ssl;
    gb clear, enc; /* received in the clear / through TLS */
    size_t clear_scan, enc_scan;
    int raw_after_tls; /* clear bytes arriving after the TLS phase began may be TLS records */
    long progress;
} srv;

static void srv_reset(void)
{
    if (srv.ssl)
        SSL_free(srv.ssl);
    if (srv.sctx)
        SSL_CTX_free(srv.sctx);
    if (srv.sfd > 0)
        close(srv.sfd);
    gb_reset(&srv.clear);
    gb_reset(&srv.enc);
    memset(&srv, 0, sizeof(srv));
    srv.cfd = srv.sfd = -1;
}

static void srv_send_plain(const char *s)
{
    size_t n = strlen(s);
    ssize_t k = send(srv.sfd, s, n, MSG_NOSIGNAL);
    (void)k;
    srv.progress++;
}

static const char *FEATURES_TLS =
    "<stream:features><starttls xmlns='urn:ietf:params:xml:ns:xmpp-tls'/>"
    "<mechanisms xmlns='urn:ietf:params:xml:ns:xmpp-sasl'><mechanism>PLAIN</mechanism></mechanisms>"
    "</stream:features>";
static const char *FEATURES_SASL =
    "<stream:features>"
    "<mechanisms xmlns='urn:ietf:params:xml:ns:xmpp-sasl'><mechanism>PLAIN</mechanism></mechanisms>"
    "</stream:features>";

static void srv_header(char *buf, size_t n, const char *id, const char *features)
{
    snprintf(buf, n,
             "<?xml version='1.0'?><stream:stream xmlns='jabber:client' "
             "xmlns:stream='http://etherx.jabber.org/streams' id='%s' version='1.0'>%s",
             id, features);
}

static int srv_start_tls(void)
{
    srv.sctx = SSL_CTX_new(TLS_server_method());
    if (!srv.sctx)
        return -1;
    if (SSL_CTX_use_certificate(srv.sctx, cfg.leaf) != 1 ||
        SSL_CTX_use_PrivateKey(srv.sctx, z_key[K_LEAF]) != 1)
        return -1;
    if (cfg.inter && cfg.send_inter)
        SSL_CTX_add1_chain_cert(srv.sctx, cfg.inter);
    if (cfg.send_unk)
        SSL_CTX_add1_chain_cert(srv.sctx, z_unk);
    SSL_CTX_set_mode(srv.sctx, SSL_MODE_ENABLE_PARTIAL_WRITE | SSL_MODE_ACCEPT_MOVING_WRITE_BUFFER);
    srv.ssl = SSL_new(srv.sctx);
    if (!srv.ssl)
        return -1;
    SSL_set_fd(srv.ssl, srv.sfd);
    SSL_set_accept_state(srv.ssl);
    return 0;
}

static int contains(const gb *b, size_t from, const char *needle)
{
    size_t nl = strlen(needle), i;
    if (b->n < nl)
        return 0;
    for (i = from; i + nl <= b->n; i++)
        if (!memcmp(b->p + i, needle, nl))
            return 1;
    return 0;
}

/* one step of the server; returns 1 when something happened */
static int srv_step(void)
{
    unsigned char buf[4096];
    ssize_t k;
    int r, e;
    char out[1024];
    switch (srv.state) {
    case S_PLAIN:
        k = recv(srv.sfd, buf, sizeof(buf), 0);
        if (k == 0) {
            srv.state = S_EOF;
            return 1;
        }
        if (k < 0)
            return 0;
        gb_add(&srv.clear, buf, (size_t)k);
        if (!srv.hdr_answered && contains(&srv.clear, 0, "<stream:stream") &&
            srv.clear.p[srv.clear.n - 1] == '>') {
            srv.hdr_answered = 1;
            srv_header(out, sizeof(out), "s1", FEATURES_TLS);
            srv_send_plain(out);
        }
        if (!srv.starttls_answered && contains(&srv.clear, 0, "<starttls") &&
            srv.clear.p[srv.clear.n - 1] == '>') {
            srv.starttls_answered = 1;
            srv_send_plain("<proceed xmlns='urn:ietf:params:xml:ns:xmpp-tls'/>");
            srv.state = S_TLS_WAIT;
            srv.raw_after_tls = 1;
        }
        return 1;
    case S_TLS_WAIT:
        k = recv(srv.sfd, buf, 1, MSG_PEEK);
        if (k == 0) {
            srv.state = S_EOF;
            return 1;
        }
        if (k < 0)
            return 0;
        srv.raw_after_tls = 1;
        if (buf[0] != 22) {
            /* not a TLS handshake record: the client goes on in the clear */
            k = recv(srv.sfd, buf, sizeof(buf), 0);
            if (k > 0)
                gb_add(&srv.clear, buf, (size_t)k);
            return 1;
        }
        if (cfg.srv == SRV_OK) {
            if (srv_start_tls() < 0) {
                fprintf(t_out, "ORACLE-FAIL setup server-ssl\n");
                srv.state = S_RAW;
                return 1;
            }
            srv.state = S_TLS_ACCEPT;
            return 1;
        }
        /* swallow the ClientHello */
        k = recv(srv.sfd, buf, sizeof(buf), 0);
        if (cfg.srv == SRV_CLOSE)
            shutdown(srv.sfd, SHUT_WR);
        else if (cfg.srv == SRV_GARBAGE)
            srv_send_plain("HTTP/1.1 400 Bad Request\r\n\r\n");
        /* SRV_MUTE: never answers */
        srv.accept_result = -1;
        srv.state = S_RAW;
        return 1;
    case S_TLS_ACCEPT: {
        uint64_t r0 = BIO_number_read(SSL_get_rbio(srv.ssl)), w0 = BIO_number_written(SSL_get_wbio(srv.ssl));
        ERR_clear_error();
        r = SSL_accept(srv.ssl);
        if (r == 1) {
            srv.accept_result = 1;
            srv.state = S_TLS_UP;
            return 1;
        }
        e = SSL_get_error(srv.ssl, r);
        if (e == SSL_ERROR_WANT_READ || e == SSL_ERROR_WANT_WRITE)
            return r0 != BIO_number_read(SSL_get_rbio(srv.ssl)) ||
                   w0 != BIO_number_written(SSL_get_wbio(srv.ssl));
        srv.accept_result = -1;
        ERR_clear_error();
        srv.state = S_RAW;
        return 1;
    }
    case S_TLS_UP:
        ERR_clear_error();
        r = SSL_read(srv.ssl, buf, sizeof(buf));
        if (r > 0) {
            gb_add(&srv.enc, buf, (size_t)r);
            if (!srv.enc_hdr_answered && contains(&srv.enc, 0, "<stream:stream") &&
                srv.enc.p[srv.enc.n - 1] == '>') {
                srv.enc_hdr_answered = 1;
                srv_header(out, sizeof(out), "s2", FEATURES_SASL);
                SSL_write(srv.ssl, out, (int)strlen(out));
            }
            return 1;
        }
        e = SSL_get_error(srv.ssl, r);
        if (e == SSL_ERROR_WANT_READ || e == SSL_ERROR_WANT_WRITE)
            return 0;
        if (e == SSL_ERROR_ZERO_RETURN)
            SSL_shutdown(srv.ssl);
        ERR_clear_error();
        srv.state = S_RAW;
        return 1;
    case S_RAW:
        k = recv(srv.sfd, buf, sizeof(buf), 0);
        if (k == 0) {
            srv.state = S_EOF;
            return 1;
        }
        if (k < 0)
            return 0;
        gb_add(&srv.clear, buf, (size_t)k);
        return 1;
    default:
        return 0;
    }
}

static void srv_pump(void)
{
    int guard = 0;
    if (srv.sfd < 0)
        return;
    while (guard++ < 200 && srv_step())
        srv.progress++;
}

/* classification of what the server received */
static void classify(gb *b, size_t *scan, int maybe_records, char *dst, size_t dstn)
{
    size_t i = *scan, dl = strlen(dst);
#define ADD(s)                                                        \
    do {                                                              \
        snprintf(dst + dl, dstn - dl, "%s%s", dl ? "," : "", (s));    \
        dl = strlen(dst);                                             \
    } while (0)
    while (i < b->n && dl + 80 < dstn) {
        unsigned char *p = b->p + i;
        size_t left = b->n - i;
        if (*p == ' ' || *p == '\n' || *p == '\r' || *p == '\t') {
            i++;
            continue;
        }
        if (maybe_records && *p >= 20 && *p <= 23) {
            size_t len;
            if (left < 5)
                break;
            if (p[1] == 3) {
                len = ((size_t)p[3] << 8) | p[4];
                if (left < 5 + len)
                    break;
                i += 5 + len; /* a TLS record (alert, handshake): not application data */
                continue;
            }
        }
        if (*p == '<') {
            unsigned char *gt = memchr(p, '>', left);
            char name[40];
            size_t k = 0, j = 1;
            if (!gt)
                break;
            while (j < left && k + 1 < sizeof(name) && p[j] != ' ' && p[j] != '>' &&
                   !(p[j] == '/' && j > 1) && p[j] != '\t' && p[j] != '\n')
                name[k++] = (char)p[j++];
            name[k] = 0;
            if (!strcmp(name, "?xml")) {
                i += (size_t)(gt - p) + 1;
                continue;
            }
            if (!strcmp(name, "auth")) {
                /* consume through </auth> (or the self-closing tag) */
                if (gt > p && gt[-1] == '/') {
                    i += (size_t)(gt - p) + 1;
                } else {
                    size_t q;
                    int found = 0;
                    for (q = i; q + 7 <= b->n; q++)
                        if (!memcmp(b->p + q, "</auth>", 7)) {
                            found = 1;
                            break;
                        }
                    if (!found)
                        break;
                    i = q + 7;
                }
                ADD("auth");
                continue;
            }
            i += (size_t)(gt - p) + 1;
            if (!strcmp(name, "stream:stream"))
                ADD("hdr");
            else if (!strcmp(name, "/stream:stream"))
                ADD("close");
            else if (!strcmp(name, "starttls"))
                ADD("starttls");
            else if (!strcmp(name, "probe"))
                ADD("probe");
            else {
                char t[48];
                snprintf(t, sizeof(t), "x:%s", name);
                ADD(t);
            }
            continue;
        }
        /* text that is not markup */
        {
            unsigned char *lt = memchr(p, '<', left);
            i += lt ? (size_t)(lt - p) : left;
            ADD("junk");
        }
    }
#undef ADD
    *scan = i;
}

/* ------------------------------------------------------------------------------------------ */
/* libc wrappers: the library's socket is one end of a socketpair */
static int expect_socket;

int __real_socket(int domain, int type, int protocol);
int __wrap_socket(int domain, int type, int protocol)
{
    int sv[2];
    if (!tls_active || !expect_socket)
        return __real_socket(domain, type, protocol);
    if (socketpair(AF_UNIX, SOCK_STREAM, 0, sv) < 0)
        return -1;
    fcntl(sv[1], F_SETFL, fcntl(sv[1], F_GETFL, 0) | O_NONBLOCK);
    srv.cfd = sv[0];
    srv.sfd = sv[1];
    expect_socket = 0;
    return sv[0];
}

int __real_connect(int fd, const struct sockaddr *sa, socklen_t len);
int __wrap_connect(int fd, const struct sockaddr *sa, socklen_t len)
{
    if (tls_active && fd == srv.cfd && srv.cfd >= 0)
        return 0;
    return __real_connect(fd, sa, len);
}

int __real_getaddrinfo(const char *node, const char *service, const struct addrinfo *hints,
                       struct addrinfo **res);
int __wrap_getaddrinfo(const char *node, const char *service, const struct addrinfo *hints,
                       struct addrinfo **res)
{
    struct addrinfo *ai;
    struct sockaddr_in *sin;
    if (!tls_active)
        return __real_getaddrinfo(node, service, hints, res);
    ai = calloc(1, sizeof(*ai) + sizeof(*sin));
    sin = (struct sockaddr_in *)(ai + 1);
    sin->sin_family = AF_INET;
    sin->sin_port = htons((unsigned short)atoi(service ? service : "0"));
    sin->sin_addr.s_addr = htonl(INADDR_LOOPBACK);
    ai->ai_family = AF_INET;
    ai->ai_socktype = SOCK_STREAM;
    ai->ai_protocol = IPPROTO_TCP;
    ai->ai_addrlen = sizeof(*sin);
    ai->ai_addr = (struct sockaddr *)sin;
    *res = ai;
    return 0;
}

void __real_freeaddrinfo(struct addrinfo *ai);
void __wrap_freeaddrinfo(struct addrinfo *ai)
{
    if (!tls_active) {
        __real_freeaddrinfo(ai);
        return;
    }
    free(ai);
}

int __real_select(int nfds, fd_set *r, fd_set *w, fd_set *e, struct timeval *tv);
static long idle_spins;
static long select_calls_at_start;

static int tls_select(int nfds, fd_set *r, fd_set *w, fd_set *e, struct timeval *tv)
{
    struct timeval z = {0, 0};
    long p0 = srv.progress;
    int rc;
    (void)tv;
    srv_pump();
    rc = __real_select(nfds, r, w, e, &z);
    if (rc == 0 && srv.progress == p0) {
        if (++idle_spins > 300 && srv.sfd >= 0 && srv.state != S_EOF) {
            /* the client waits for something the server will never send: break the wait */
            if (cfg.srv == SRV_MUTE && g_connect_calls > 0 && !g_hs_done)
                fprintf(t_out, "info tls_start still waiting after %ld select() calls and %d SSL_connect() calls; "
                               "no time-out of its own, the harness half-closes the socket\n",
                        hselect_calls - select_calls_at_start, g_connect_calls);
            else
                fprintf(t_out, "ORACLE-FAIL stall\n");
            shutdown(srv.sfd, SHUT_WR);
            idle_spins = 0;
        }
    } else
        idle_spins = 0;
    return rc;
}

/* ------------------------------------------------------------------------------------------ */
/* observation of the library's use of OpenSSL */
typedef struct {
    int ok, depth, err, ret;
} vcall;
#define MAXV 64
static struct {
    int attempts, new_ok;
    int connect_calls;
    int have_cfg;
    int vmode, hascb;
    unsigned hostflags;
    int nhosts;
    char *host0, *sni;
    int (*orig_cb)(int, X509_STORE_CTX *);
    vcall calls[MAXV];
    int ncalls;
    vcall facts[MAXV];
    int nfacts, probed;
    struct {
        int depth, err, ans;
    } uh[MAXV];
    int nuh;
    int cur_depth, cur_err;
    char cur_subject[512];
    int in_cb;
    int hs_done, hs_ret, hs_err;
    int last_connect_ret, last_connect_err;
    SSL *ssl;
} ob;

static void ob_reset(void)
{
    free(ob.host0);
    free(ob.sni);
    memset(&ob, 0, sizeof(ob));
}

static int probe_cb(int ok, X509_STORE_CTX *c)
{
    if (ob.nfacts < MAXV) {
        ob.facts[ob.nfacts].ok = ok;
        ob.facts[ob.nfacts].depth = X509_STORE_CTX_get_error_depth(c);
        ob.facts[ob.nfacts].err = ok ? 0 : X509_STORE_CTX_get_error(c);
        ob.nfacts++;
    }
    return 1;
}

/* what would OpenSSL report for this peer under this configuration if every failure were
   accepted?  Second path validation over the same store, parameters and chain. */
static void run_probe(X509_STORE_CTX *live)
{
    X509_STORE_CTX *p = X509_STORE_CTX_new();
    ob.probed = 1;
    if (!p)
        return;
    if (X509_STORE_CTX_init(p, X509_STORE_CTX_get0_store(live), X509_STORE_CTX_get0_cert(live),
                            X509_STORE_CTX_get0_untrusted(live)) == 1) {
        X509_VERIFY_PARAM_set1(X509_STORE_CTX_get0_param(p), X509_STORE_CTX_get0_param(live));
        X509_STORE_CTX_set_verify_cb(p, probe_cb);
        X509_verify_cert(p);
    }
    X509_STORE_CTX_free(p);
    ERR_clear_error();
}

static int rec_cb(int ok, X509_STORE_CTX *c)
{
    int ret;
    X509 *cur;
    if (!ob.probed)
        run_probe(c);
    ob.cur_depth = X509_STORE_CTX_get_error_depth(c);
    ob.cur_err = ok ? 0 : X509_STORE_CTX_get_error(c);
    cur = X509_STORE_CTX_get_current_cert(c);
    ob.cur_subject[0] = 0;
    if (cur)
        X509_NAME_oneline(X509_get_subject_name(cur), ob.cur_subject, sizeof(ob.cur_subject));
    ob.in_cb = 1;
    ret = ob.orig_cb ? ob.orig_cb(ok, c) : ok;
    ob.in_cb = 0;
    if (ob.ncalls < MAXV) {
        ob.calls[ob.ncalls].ok = ok;
        ob.calls[ob.ncalls].depth = ob.cur_depth;
        ob.calls[ob.ncalls].err = ob.cur_err;
        ob.calls[ob.ncalls].ret = ret;
        ob.ncalls++;
    }
    return ret;
}

int __real_SSL_connect(SSL *ssl);
int __wrap_SSL_connect(SSL *ssl)
{
    int r;
    if (!tls_active)
        return __real_SSL_connect(ssl);
    if (!ob.have_cfg) {
        X509_VERIFY_PARAM *param = SSL_get0_param(ssl);
        const char *h, *sni;
        ob.have_cfg = 1;
        ob.ssl = ssl;
        ob.vmode = SSL_get_verify_mode(ssl);
        ob.orig_cb = SSL_get_verify_callback(ssl);
        ob.hascb = ob.orig_cb != NULL;
        ob.hostflags = X509_VERIFY_PARAM_get_hostflags(param);
        ob.nhosts = 0;
        while (X509_VERIFY_PARAM_get0_host(param, ob.nhosts))
            ob.nhosts++;
        h = X509_VERIFY_PARAM_get0_host(param, 0);
        ob.host0 = h ? strdup(h) : NULL;
        sni = SSL_get_servername(ssl, TLSEXT_NAMETYPE_host_name);
        ob.sni = sni ? strdup(sni) : NULL;
        /* interpose a recording callback; the library's own callback decides as before */
        SSL_set_verify(ssl, ob.vmode, rec_cb);
    }
    ob.connect_calls++;
    g_connect_calls++;
    r = __real_SSL_connect(ssl);
    ob.last_connect_ret = r;
    ob.last_connect_err = r <= 0 ? SSL_get_error(ssl, r) : 0;
    return r;
}

tls_t *__real_tls_new(xmpp_conn_t *conn);
tls_t *__wrap_tls_new(xmpp_conn_t *conn)
{
    tls_t *t = __real_tls_new(conn);
    if (tls_active) {
        ob.attempts++;
        ob.new_ok = t != NULL;
    }
    return t;
}

int __real_tls_start(tls_t *tls);
int __wrap_tls_start(tls_t *tls)
{
    int r = __real_tls_start(tls);
    if (tls_active) {
        g_hs_done = 1;
        ob.hs_done = 1;
        ob.hs_ret = r;
        ob.hs_err = ob.last_connect_err;
        /* let the server finish its side (TLS 1.3: the client is done first) */
        srv_pump();
    }
    return r;
}

/* the user's certificate-failure handler */
static int user_handler(const xmpp_tlscert_t *cert, const char *const errormsg)
{
    int idx = ob.nuh, ans;
    const char *want = X509_verify_cert_error_string(ob.cur_err);
    const char *subj = xmpp_tlscert_get_string(cert, XMPP_CERT_SUBJECT);
    if (!ob.in_cb)
        fprintf(t_out, "ORACLE-FAIL handler-outside-verify\n");
    if (idx == 0 && xmpp_tlscert_get_conn(cert) != e_conn)
        fprintf(t_out, "info certfail handler: xmpp_tlscert_get_conn(cert) = %s, xmpp_tlscert_get_userdata(cert) = %s\n",
                xmpp_tlscert_get_conn(cert) ? "another connection" : "NULL",
                xmpp_tlscert_get_userdata(cert) ? "set" : "NULL");
    if (!errormsg || strcmp(errormsg, want) != 0)
        fprintf(t_out, "ORACLE-FAIL errstr depth=%d err=%d got=%s\n", ob.cur_depth, ob.cur_err,
                errormsg ? errormsg : "(null)");
    if (!subj || strcmp(subj, ob.cur_subject) != 0)
        fprintf(t_out, "ORACLE-FAIL wrong-cert depth=%d\n", ob.cur_depth);
    switch (cfg.cbmode) {
    case CB_ACC:
        ans = 1;
        break;
    case CB_REJ:
        ans = 0;
        break;
    case CB_K:
        ans = idx < cfg.cbarg ? 1 : 0;
        break;
    case CB_R:
        ans = idx == cfg.cbarg ? 0 : 1;
        break;
    default:
        ans = cfg.cbarg;
        break;
    }
    if (ob.nuh < MAXV) {
        ob.uh[ob.nuh].depth = ob.cur_depth;
        ob.uh[ob.nuh].err = ob.cur_err;
        ob.uh[ob.nuh].ans = ans;
        ob.nuh++;
    }
    return ans;
}

/* ------------------------------------------------------------------------------------------ */
/* the connection under test */
static xmpp_ctx_t *e_ctx;
static xmpp_conn_t *e_conn;
static char e_events[512];
static int e_raw_seen;

static void ev_add(const char *s)
{
    size_t l = strlen(e_events);
    snprintf(e_events + l, sizeof(e_events) - l, "%s%s", l ? "," : "", s);
}

static void conn_handler(xmpp_conn_t *conn, xmpp_conn_event_t ev, int error,
                         xmpp_stream_error_t *serr, void *ud)
{
    char b[64];
    (void)conn;
    (void)serr;
    (void)ud;
    switch (ev) {
    case XMPP_CONN_CONNECT:
        ev_add("CONNECT");
        break;
    case XMPP_CONN_RAW_CONNECT:
        e_raw_seen = 1;
        ev_add("RAW_CONNECT");
        break;
    case XMPP_CONN_DISCONNECT:
        snprintf(b, sizeof(b), "DISCONNECT:%d", error);
        ev_add(b);
        break;
    default:
        ev_add("FAIL");
    }
}

static void teardown(void)
{
    tls_active = 1;
    if (e_conn) {
        xmpp_conn_release(e_conn);
        e_conn = NULL;
    }
    if (e_ctx) {
        xmpp_ctx_free(e_ctx);
        e_ctx = NULL;
    }
    srv_reset();
    ob_reset();
    cfg_reset();
    prev_ca = -1;
    e_events[0] = 0;
    e_raw_seen = 0;
    idle_spins = 0;
    g_connect_calls = g_hs_done = 0;
    ERR_clear_error();
}

static const char *st_name(void)
{
    if (!e_conn)
        return "d";
    return e_conn->state == XMPP_STATE_CONNECTED ? "c" : e_conn->state == XMPP_STATE_CONNECTING ? "i" : "d";
}

static const char *intf_name(void)
{
    if (!e_conn)
        return "other";
    if (e_conn->intf.read == tls_read && e_conn->intf.write == tls_write)
        return "tls";
    if (e_conn->intf.read == sock_read && e_conn->intf.write == sock_write)
        return "sock";
    return "other";
}

static void loop_once(void)
{
    srv_pump();
    idle_spins = 0;
    xmpp_run_once(e_ctx, 0);
    srv_pump();
}

static void print_hex_or_dash(const char *s)
{
    if (!s)
        fputc('-', t_out);
    else
        hprint_hex(t_out, (const unsigned char *)s, strlen(s));
}

static void report_io(const char *head)
{
    char cl[1024] = "", en[1024] = "";
    srv_pump();
    classify(&srv.clear, &srv.clear_scan, srv.raw_after_tls, cl, sizeof(cl));
    classify(&srv.enc, &srv.enc_scan, 0, en, sizeof(en));
    fprintf(t_out, "%s sec=%d st=%s ev=%s clear=%s enc=%s\n", head, e_conn ? xmpp_conn_is_secured(e_conn) : 0,
            st_name(), e_events[0] ? e_events : "-", cl[0] ? cl : "-", en[0] ? en : "-");
    e_events[0] = 0;
}

static int parse_kv(char *tok, const char *key, char **val)
{
    size_t kl = strlen(key);
    if (!strncmp(tok, key, kl) && tok[kl] == '=') {
        *val = tok + kl + 1;
        return 1;
    }
    return 0;
}

static int do_cfg(char **tok, int n)
{
    int i;
    char *v, *leaf = NULL, *inter = NULL;
    hbuf d = {NULL, 0};
    int have_dom = 0;
    cfg_reset();
    cfg.path = -1;
    cfg.cbmode = CB_NONE;
    cfg.ca = CA_NONE;
    cfg.srv = SRV_OK;
    for (i = 1; i < n; i++) {
        if (parse_kv(tok[i], "dom", &v)) {
            if (hex_tok(v, &d) < 0 || !d.p)
                return -1;
            have_dom = 1;
        } else if (parse_kv(tok[i], "path", &v))
            cfg.path = !strcmp(v, "s") ? P_STARTTLS : !strcmp(v, "l") ? P_LEGACY : !strcmp(v, "d") ? P_DIRECT : -1;
        else if (parse_kv(tok[i], "flags", &v)) {
            char *q = v;
            cfg.nflags = 0;
            while (*q && cfg.nflags < MAXSEQ) {
                cfg.flags[cfg.nflags++] = strtol(q, &q, 10);
                if (*q == ',')
                    q++;
                else if (*q)
                    return -1;
            }
        } else if (parse_kv(tok[i], "cb", &v)) {
            /* a comma list: every entry is one xmpp_conn_set_certfail_handler call; the behaviour of
               the handler is that of the last entry that is not `none` */
            char *q = v;
            cfg.ncbseq = 0;
            while (q && *q && cfg.ncbseq < MAXSEQ) {
                char *c = strchr(q, ',');
                if (c)
                    *c = 0;
                if (!strcmp(q, "none"))
                    cfg.cbseq[cfg.ncbseq++] = 0;
                else {
                    cfg.cbseq[cfg.ncbseq++] = 1;
                    if (!strcmp(q, "acc"))
                        cfg.cbmode = CB_ACC;
                    else if (!strcmp(q, "rej"))
                        cfg.cbmode = CB_REJ;
                    else if ((q[0] == 'k' || q[0] == 'r' || q[0] == 'v') && q[1]) {
                        cfg.cbmode = q[0] == 'k' ? CB_K : q[0] == 'r' ? CB_R : CB_V;
                        cfg.cbarg = atoi(q + 1);
                    } else
                        return -1;
                }
                q = c ? c + 1 : NULL;
            }
            if (!cfg.ncbseq)
                return -1;
        } else if (parse_kv(tok[i], "ca", &v)) {
            cfg.ca = !strcmp(v, "none")      ? CA_NONE
                     : !strcmp(v, "file")    ? CA_FILE
                     : !strcmp(v, "path")    ? CA_PATH
                     : !strcmp(v, "env")     ? CA_ENV
                     : !strcmp(v, "other")   ? CA_OTHER
                     : !strcmp(v, "missing") ? CA_MISSING
                                             : -1;
            if (cfg.ca < 0)
                return -1;
        } else if (parse_kv(tok[i], "srv", &v)) {
            cfg.srv = !strcmp(v, "ok")        ? SRV_OK
                      : !strcmp(v, "close")   ? SRV_CLOSE
                      : !strcmp(v, "garbage") ? SRV_GARBAGE
                      : !strcmp(v, "mute")    ? SRV_MUTE
                                              : -1;
            if (cfg.srv < 0)
                return -1;
        } else if (parse_kv(tok[i], "leaf", &v))
            leaf = v;
        else if (parse_kv(tok[i], "inter", &v))
            inter = v;
        else
            return -1;
    }
    if (!have_dom || cfg.path < 0 || !leaf) {
        hbuf_free(&d);
        return -1;
    }
    cfg.domain = hcstr(&d);
    hbuf_free(&d);
    if (zoo_init() < 0) {
        fprintf(t_out, "ORACLE-FAIL setup zoo\n");
        return -1;
    }
    if (build_chain(leaf, inter) < 0)
        return -1;
    cfg.set = 1;
    return 0;
}

static void do_start_inner(void);

static void do_start(void)
{
    if (zoo_files_write() < 0) {
        fprintf(t_out, "ORACLE-FAIL setup ca-files\n= start setup-failed\n");
        return;
    }
    do_start_inner();
    zoo_files_remove();
}

static void do_start_inner(void)
{
    char jid[1200];
    int rc = 0, have_rc = 0, i, after = -1, reused = 0;
    long flags = 0;
    /* hermetic default trust store: nothing, unless ca=env */
    setenv("SSL_CERT_DIR", z_nofile, 1);
    setenv("SSL_CERT_FILE", cfg.ca == CA_ENV ? z_cafile : z_nofile, 1);
    if (!e_conn) {
        e_ctx = xmpp_ctx_new(&hmem, getenv("HTLS_DEBUG") ? xmpp_get_default_logger(XMPP_LEVEL_DEBUG) : &hlog_quiet);
        e_conn = xmpp_conn_new(e_ctx);
    } else
        reused = 1;
    /* every word is one xmpp_conn_set_flags call; the last one must be accepted */
    if (!cfg.nflags)
        cfg.flags[cfg.nflags++] = 0;
    for (i = 0; i < cfg.nflags; i++) {
        flags = cfg.flags[i];
        if (cfg.path == P_LEGACY)
            flags |= XMPP_CONN_FLAG_LEGACY_SSL;
        rc = xmpp_conn_set_flags(e_conn, flags);
    }
    if (rc != 0) {
        fprintf(t_out, "= start bad-flags\n");
        return;
    }
    snprintf(jid, sizeof(jid), "user@%s", cfg.domain);
    xmpp_conn_set_jid(e_conn, jid);
    xmpp_conn_set_pass(e_conn, "secret");
    for (i = 0; i < cfg.ncbseq; i++)
        if (cfg.cbseq[i])
            xmpp_conn_set_certfail_handler(e_conn, user_handler);
        else if (reused || i > 0)
            xmpp_conn_set_certfail_handler(e_conn, NULL);
    if (!cfg.ncbseq && reused)
        xmpp_conn_set_certfail_handler(e_conn, NULL);
    /* the handler as it is installed now */
    if (!e_conn->certfail_handler)
        cfg.cbmode = CB_NONE;
    switch (cfg.ca) {
    case CA_FILE:
        xmpp_conn_set_cafile(e_conn, z_cafile);
        break;
    case CA_PATH:
        xmpp_conn_set_capath(e_conn, z_capath);
        break;
    case CA_OTHER:
        xmpp_conn_set_cafile(e_conn, z_otherfile);
        break;
    case CA_MISSING:
        xmpp_conn_set_cafile(e_conn, z_missing);
        break;
    default:
        break;
    }
    prev_ca = cfg.ca;
    expect_socket = 1;
    select_calls_at_start = hselect_calls;
    if (cfg.path == P_DIRECT)
        rc = xmpp_connect_raw(e_conn, "127.0.0.1", 5222, conn_handler, NULL);
    else
        rc = xmpp_connect_client(e_conn, "127.0.0.1", cfg.path == P_LEGACY ? 5223 : 5222, conn_handler, NULL);
    if (rc != 0 || srv.sfd < 0) {
        fprintf(t_out, "= start connect-failed %d\n", rc);
        return;
    }
    srv.state = cfg.path == P_STARTTLS ? S_PLAIN : S_TLS_WAIT;
    rc = 0;
    for (i = 0; i < 40; i++) {
        loop_once();
        if (cfg.path == P_DIRECT && e_raw_seen && !have_rc && !ob.attempts) {
            rc = xmpp_conn_tls_start(e_conn);
            have_rc = 1;
            srv_pump();
        }
        if (after < 0 && ob.attempts && (ob.hs_done || !ob.new_ok))
            after = i;
        if (after < 0 && have_rc)
            after = i; /* refused without an attempt (TLS disabled) */
        if (after >= 0 && i >= after + 3)
            break;
        if (e_conn->state == XMPP_STATE_DISCONNECTED && after < 0 && i > 20)
            break;
    }
    /* recorded parameters for the model */
    fprintf(t_out, "vf ");
    if (!ob.nfacts)
        fputc('-', t_out);
    for (i = 0; i < ob.nfacts; i++)
        fprintf(t_out, "%s%d:%d:%d", i ? "," : "", ob.facts[i].ok, ob.facts[i].depth, ob.facts[i].err);
    fprintf(t_out, "\nhr %d\n", ob.hs_done ? ob.hs_err : 0);
    /* H-openssl on this run */
    if (ob.hs_done) {
        int allok = 1, k;
        for (k = 0; k < ob.ncalls; k++)
            if (ob.calls[k].ret == 0)
                allok = 0;
        if (ob.ncalls > ob.nfacts)
            fprintf(t_out, "ORACLE-FAIL hyp-openssl more-calls-than-probe\n");
        for (k = 0; k < ob.ncalls && k < ob.nfacts; k++)
            if (ob.calls[k].ok != ob.facts[k].ok || ob.calls[k].depth != ob.facts[k].depth ||
                ob.calls[k].err != ob.facts[k].err) {
                fprintf(t_out, "ORACLE-FAIL hyp-openssl call-%d-differs-from-probe\n", k);
                break;
            }
        for (k = 0; k + 1 < ob.ncalls; k++)
            if (ob.calls[k].ret == 0) {
                fprintf(t_out, "ORACLE-FAIL hyp-openssl continued-after-reject\n");
                break;
            }
        if (allok && cfg.srv == SRV_OK && ob.ncalls != ob.nfacts)
            fprintf(t_out, "ORACLE-FAIL hyp-openssl stopped-without-reject\n");
        if (cfg.srv == SRV_OK) {
            int expect_ok = ob.vmode == SSL_VERIFY_NONE ? 1 : allok;
            if ((ob.hs_ret != 0) != expect_ok)
                fprintf(t_out, "ORACLE-FAIL hyp-openssl handshake-result hs=%d allok=%d vmode=%d\n",
                        ob.hs_ret, allok, ob.vmode);
            if ((ob.hs_ret != 0) != (srv.accept_result == 1))
                fprintf(t_out, "ORACLE-FAIL hyp-openssl server-side-disagrees hs=%d srv=%d\n", ob.hs_ret,
                        srv.accept_result);
        } else if (ob.hs_ret != 0)
            fprintf(t_out, "ORACLE-FAIL hyp-openssl handshake-with-broken-server\n");
        if ((ob.hs_ret != 0) != (ob.hs_err == 0))
            fprintf(t_out, "ORACLE-FAIL hyp-openssl error-class hs=%d err=%d\n", ob.hs_ret, ob.hs_err);
    }
    fprintf(t_out, "= start att=%d new=%d cfg=", ob.attempts, ob.new_ok);
    if (ob.have_cfg) {
        fprintf(t_out, "%d:%d:%u:%d:", ob.vmode, ob.hascb, ob.hostflags, ob.nhosts);
        print_hex_or_dash(ob.host0);
        fputc(':', t_out);
        print_hex_or_dash(ob.sni);
    } else
        fputc('-', t_out);
    fprintf(t_out, " calls=");
    if (!ob.ncalls)
        fputc('-', t_out);
    for (i = 0; i < ob.ncalls; i++)
        fprintf(t_out, "%s%d:%d:%d:%d", i ? "," : "", ob.calls[i].ok, ob.calls[i].depth, ob.calls[i].err,
                ob.calls[i].ret);
    fprintf(t_out, " uh=");
    if (!ob.nuh)
        fputc('-', t_out);
    for (i = 0; i < ob.nuh; i++)
        fprintf(t_out, "%s%d:%d:%d", i ? "," : "", ob.uh[i].depth, ob.uh[i].err, ob.uh[i].ans);
    {
        int allgood = 1;
        for (i = 0; i < ob.nfacts; i++)
            if (!ob.facts[i].ok)
                allgood = 0;
        fprintf(t_out, " good=%s", ob.probed ? (allgood ? "1" : "0") : "-");
    }
    fprintf(t_out, " hs=%s", ob.hs_done ? (ob.hs_ret ? "1" : "0") : "-");
    if (have_rc)
        fprintf(t_out, " rc=%d", rc);
    else
        fprintf(t_out, " rc=-");
    fprintf(t_out, " failed=%d tls=%d intf=%s", e_conn->tls_failed, e_conn->tls != NULL, intf_name());
    report_io("");
}

int eng_tls(FILE *in, FILE *out)
{
    char *line;
    t_out = out;
    tls_active = 1;
    hselect_hook = tls_select;
    signal(SIGPIPE, SIG_IGN);
    srv.cfd = srv.sfd = -1;
    hclock_ms = 1000000;
    while ((line = hreadline(in))) {
        char *tok[16];
        int n = hsplit(line, tok, 16);
        if (n < 1)
            continue;
        if (n == 1 && !strcmp(tok[0], "case")) {
            teardown();
            hclock_ms = 1000000;
            fprintf(out, "= case\n");
            continue;
        }
        if (!strcmp(tok[0], "cfg")) {
            /* a second round on the same connection object: only once it is disconnected; a CA
               file / directory cannot be taken back through the API */
            if ((e_conn && e_conn->state != XMPP_STATE_DISCONNECTED) || do_cfg(tok, n) < 0 ||
                (e_conn && prev_ca != cfg.ca && (cfg.ca == CA_NONE || cfg.ca == CA_ENV) &&
                 (prev_ca != CA_NONE && prev_ca != CA_ENV))) {
                cfg.set = 0;
                fprintf(out, "= bad-op\n");
            } else {
                if (e_conn) {
                    srv_reset();
                    ob_reset();
                    e_events[0] = 0;
                    e_raw_seen = 0;
                    idle_spins = 0;
                    g_connect_calls = g_hs_done = 0;
                }
                fprintf(out, "= cfg ok\n");
            }
            continue;
        }
        fflush(out);
        if (n == 1 && !strcmp(tok[0], "start")) {
            if (!cfg.set) {
                fprintf(out, "= bad-op\n");
                continue;
            }
            cfg.set = 0;
            do_start();
            continue;
        }
        if ((n == 1 || (n == 2 && !strcmp(tok[1], "raw"))) && !strcmp(tok[0], "probe")) {
            if (!e_conn) {
                fprintf(out, "= bad-op\n");
                continue;
            }
            if (n == 2)
                xmpp_send_raw(e_conn, "<probe/>", 8);
            else
                xmpp_send_raw_string(e_conn, "<probe/>");
            loop_once();
            loop_once();
            report_io("= io");
            continue;
        }
        if (n == 1 && !strcmp(tok[0], "drop")) {
            if (!e_conn) {
                fprintf(out, "= bad-op\n");
                continue;
            }
            conn_disconnect(e_conn);
            loop_once();
            report_io("= io");
            continue;
        }
        if (n == 2 && !strcmp(tok[0], "tick")) {
            if (!e_conn) {
                fprintf(out, "= bad-op\n");
                continue;
            }
            hclock_ms += strtoul(tok[1], NULL, 10);
            loop_once();
            loop_once();
            report_io("= io");
            continue;
        }
        if (n == 1 && !strcmp(tok[0], "end")) {
            teardown();
            fprintf(out, "= end live=%ld\n", hmem_live);
            continue;
        }
        fprintf(out, "= bad-op\n");
    }
    teardown();
    hselect_hook = NULL;
    tls_active = 0;
    return 0;
}
