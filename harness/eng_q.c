/* engine q (C06): the send queue and the write loop of xmpp_run_once over a scripted transport.
     sm 0|1          stream management off/on (sm_enabled; <r/> linkage, move to the SM queue)
     su H            xmpp_send_raw(conn, H)            (user element)
     sl H            send_raw(conn, H, XMPP_QUEUE_STROPHE, NULL)   (library element)
     ss H            send_raw(conn, H, XMPP_QUEUE_SM_STROPHE, NULL) (library SM element)
     w a1,a2,...|-   one xmpp_run_once(); the i-th write call is answered by a_i
                     (all | n | again | err); calls beyond the schedule get `again`
     dropo / dropy   xmpp_conn_send_queue_drop_element(OLDEST / YOUNGEST)
     len             xmpp_conn_send_queue_len
     disc            conn_disconnect(conn)
   Every op answers `= <result> | wire H | q …` : result of the call, bytes that reached the
   wire during the op, and the complete queue state read from the internal structures. */
#include "hconn.h"

static void tail(hconn_t *h, FILE *out)
{
    fprintf(out, " | wire ");
    hconn_take_wire(h, out);
    fprintf(out, " | ");
    hconn_dump_queue(h, out);
    fprintf(out, " | st %s ev %s\n",
            h->conn->state == XMPP_STATE_CONNECTED ? "c" : h->conn->state == XMPP_STATE_DISCONNECTED ? "d" : "i",
            h->events[0] ? h->events : "-");
    h->events[0] = 0;
}

int eng_q(FILE *in, FILE *out)
{
    xmpp_ctx_t *ctx = xmpp_ctx_new(&hmem, &hlog_quiet);
    hconn_t *h = NULL;
    char *line;
    hselect_mode = 0;
    while ((line = hreadline(in))) {
        char *tok[4];
        int n = hsplit(line, tok, 4);
        if (n == 1 && !strcmp(tok[0], "case")) {
            if (h) {
                long before;
                hconn_free(h, 0);
                before = hmem_live;
                (void)before;
            }
            h = hconn_new(ctx);
            fprintf(out, "= case\n");
            continue;
        }
        if (!h)
            h = hconn_new(ctx);
        hconn_cur = h;
        if (n == 2 && !strcmp(tok[0], "sm")) {
            h->conn->sm_state->sm_support = h->conn->sm_state->sm_enabled = atoi(tok[1]) ? 1 : 0;
            fprintf(out, "= ok");
        } else if (n == 2 && (!strcmp(tok[0], "su") || !strcmp(tok[0], "sl") || !strcmp(tok[0], "ss") ||
                              !strcmp(tok[0], "sf"))) {
            hbuf b;
            if (hparse(tok[1], &b) < 0 || !b.p || (tok[0][1] == 'f' && memchr(b.p, 0, b.n))) {
                fprintf(out, "= bad-op\n");
                continue;
            }
            if (tok[0][1] == 'f') {
                /* the formatted entry point (stack buffer up to 1023 bytes, heap beyond) */
                char *z = malloc(b.n + 1);
                memcpy(z, b.p, b.n);
                z[b.n] = 0;
                xmpp_send_raw_string(h->conn, "%s", z);
                free(z);
            } else if (tok[0][1] == 'u')
                xmpp_send_raw(h->conn, (char *)b.p, b.n);
            else
                send_raw(h->conn, (char *)b.p, b.n, tok[0][1] == 'l' ? XMPP_QUEUE_STROPHE : XMPP_QUEUE_SM_STROPHE, NULL);
            hbuf_free(&b);
            fprintf(out, "= ok");
        } else if (n == 2 && !strcmp(tok[0], "w")) {
            hconn_set_schedule(h, tok[1]);
            xmpp_run_once(ctx, 0);
            fprintf(out, "= ran");
        } else if (n == 1 && (!strcmp(tok[0], "dropo") || !strcmp(tok[0], "dropy"))) {
            char *r = xmpp_conn_send_queue_drop_element(
                h->conn, tok[0][4] == 'o' ? XMPP_QUEUE_OLDEST : XMPP_QUEUE_YOUNGEST);
            fprintf(out, "= drop ");
            if (r) {
                hprint_hex(out, (unsigned char *)r, strlen(r));
                xmpp_free(ctx, r);
            } else
                fprintf(out, "null");
        } else if (n == 1 && !strcmp(tok[0], "len")) {
            fprintf(out, "= len %d", xmpp_conn_send_queue_len(h->conn));
        } else if (n == 1 && !strcmp(tok[0], "disc")) {
            conn_disconnect(h->conn);
            fprintf(out, "= ok");
        } else {
            fprintf(out, "= bad-op\n");
            continue;
        }
        tail(h, out);
    }
    if (h)
        hconn_free(h, 0);
    xmpp_ctx_free(ctx);
    if (hmem_live != 0)
        fprintf(out, "ORACLE-FAIL leak %ld\n", hmem_live);
    return 0;
}
