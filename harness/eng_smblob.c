/* engine smblob (C16): serialisation / restoration of the stream-management state, followed by
   ordinary queue operations on the restored connection.

     fresh           replace the connection by a pristine one (DISCONNECTED, no sm_state)
     restore H       xmpp_conn_restore_sm_state(conn, H) on an exact-size heap copy
     up              pretend the connection came up: state CONNECTED, negotiated (queue kept)
     smid H          make the native connection SM-resumable: sm_support/enabled/can_resume, id = H
     handled n       sm_handled_nr := n        sentnr n     sm_sent_nr := n
     su/sl/ss H, w sched, dropo, dropy, len, disc     as in engine q
     ser             serialise through the SM callback (trigger_sm_callback)  -> = blob H|null
   Every op answers `= <result> | wire H | q … | smst <support><enabled><canresume><resume> h=<n> id=<H|->
   | st c|d ev …`.   A `case` line starts from a native CONNECTED connection (as engine q). */
#include "hconn.h"
#include <fcntl.h>
#include <unistd.h>

static unsigned char *g_blob;
static size_t g_blob_n;
static int g_blob_calls;

static void sm_cb(xmpp_conn_t *conn, void *ctx, const unsigned char *state, size_t len)
{
    (void)conn;
    (void)ctx;
    free(g_blob);
    g_blob = NULL;
    g_blob_n = 0;
    g_blob_calls++;
    if (state) {
        g_blob = malloc(len ? len : 1);
        memcpy(g_blob, state, len);
        g_blob_n = len;
    }
}

static void tail(hconn_t *h, FILE *out)
{
    xmpp_sm_state_t *s = h->conn->sm_state;
    fprintf(out, " | wire ");
    hconn_take_wire(h, out);
    fprintf(out, " | ");
    if (s) {
        hconn_dump_queue(h, out);
        fprintf(out, " | smst %d%d%d%d h=%u id=", s->sm_support, s->sm_enabled, s->can_resume, s->resume,
                s->sm_handled_nr);
        if (s->id)
            hprint_hex(out, (unsigned char *)s->id, strlen(s->id));
        else
            fputc('-', out);
    } else {
        /* no SM state: print the send queue only */
        xmpp_send_queue_t *e;
        int first = 1;
        fprintf(out, "q %d %d ", h->conn->send_queue_len, h->conn->send_queue_user_len);
        if (!h->conn->send_queue_head)
            fputc('-', out);
        for (e = h->conn->send_queue_head; e; e = e->next) {
            fprintf(out, "%s?:%zu:%d:0:", first ? "" : ",", e->written, e->wip);
            hprint_hex(out, (unsigned char *)e->data, e->len);
            first = 0;
        }
        fprintf(out, " | smst none");
    }
    fprintf(out, " | st %s ev %s\n",
            h->conn->state == XMPP_STATE_CONNECTED ? "c" : h->conn->state == XMPP_STATE_DISCONNECTED ? "d" : "i",
            h->events[0] ? h->events : "-");
    h->events[0] = 0;
}

/* consistency of the doubly linked list (model-free oracle) */
static void check_links(hconn_t *h, FILE *out)
{
    xmpp_send_queue_t *e, *prev = NULL;
    int n = 0, u = 0;
    for (e = h->conn->send_queue_head; e; e = e->next) {
        if (e->prev != prev)
            fprintf(out, "ORACLE-FAIL bad-prev-link\n");
        prev = e;
        n++;
        if (e->owner == XMPP_QUEUE_USER)
            u++;
    }
    if (h->conn->send_queue_tail != prev)
        fprintf(out, "ORACLE-FAIL bad-tail\n");
    if (h->conn->send_queue_len != n || h->conn->send_queue_user_len != u)
        fprintf(out, "ORACLE-FAIL bad-counters\n");
}

static int eng_smblob_inner(FILE *in, FILE *out, FILE *res, char **resbuf);

int eng_smblob(FILE *in, FILE *out)
{
    char *buf = NULL;
    return eng_smblob_inner(in, out, NULL, &buf);
}

#define RES(...) fprintf(res, __VA_ARGS__)

static int eng_smblob_inner(FILE *in, FILE *out, FILE *res, char **resbuf)
{
    xmpp_ctx_t *ctx = xmpp_ctx_new(&hmem, &hlog_quiet);
    hconn_t *h = NULL;
    char *line;
    hselect_mode = 0;
    while ((line = hreadline(in))) {
        char *tok[4];
        int n = hsplit(line, tok, 4);
        if (n == 1 && !strcmp(tok[0], "case")) {
            if (h)
                hconn_free(h, 0);
            if (hmem_live != 0) {
                /* only the context itself may be alive between cases */
            }
            h = hconn_new(ctx);
            xmpp_conn_set_sm_callback(h->conn, sm_cb, NULL);
            fprintf(out, "= case\n");
            continue;
        }
        if (!h) {
            h = hconn_new(ctx);
            xmpp_conn_set_sm_callback(h->conn, sm_cb, NULL);
        }
        hconn_cur = h;
        /* the result text of this op is collected here and printed after the ORACLE-FAIL lines */
        {
            size_t rlen = 0;
            free(*resbuf);
            *resbuf = NULL;
            res = open_memstream(resbuf, &rlen);
        }
        if (n == 1 && !strcmp(tok[0], "fresh")) {
            hconn_free(h, 0);
            h = hconn_new(ctx);
            /* undo what hconn_new pretends: a pristine, never connected object */
            close(h->conn->sock);
            h->conn->sock = INVALID_SOCKET;
            h->conn->state = XMPP_STATE_DISCONNECTED;
            h->conn->stream_negotiation_completed = 0;
            xmpp_free_sm_state(xmpp_conn_get_sm_state(h->conn));
            xmpp_conn_set_sm_callback(h->conn, sm_cb, NULL);
            RES("= ok");
        } else if (n == 2 && !strcmp(tok[0], "restore")) {
            hbuf b;
            int rc;
            if (hparse(tok[1], &b) < 0 || !b.p) {
                fprintf(out, "= bad-op\n");
                continue;
            }
            rc = xmpp_conn_restore_sm_state(h->conn, b.p, b.n);
            hbuf_free(&b);
            if (rc != 0 && h->conn->sm_state != NULL && !hmem_is_live(h->conn->sm_state)) {
                fprintf(out, "ORACLE-FAIL dangling-sm-state\n");
                h->conn->sm_state = NULL; /* keep the harness alive; the failure is recorded */
            }
            RES("= rc %d", rc);
        } else if (n == 1 && !strcmp(tok[0], "up")) {
            if (!h->conn->sm_state) {
                xmpp_sm_state_t *sm = strophe_alloc(ctx, sizeof(*sm));
                memset(sm, 0, sizeof(*sm));
                sm->ctx = ctx;
                xmpp_conn_set_sm_state(h->conn, sm);
            }
            if (h->conn->sock == INVALID_SOCKET)
                h->conn->sock = open("/dev/null", 2);
            h->conn->state = XMPP_STATE_CONNECTED;
            h->conn->stream_negotiation_completed = 1;
            RES("= ok");
        } else if (n == 2 && !strcmp(tok[0], "smid")) {
            hbuf b;
            xmpp_sm_state_t *s = h->conn->sm_state;
            if (hparse(tok[1], &b) < 0 || !b.p || memchr(b.p, 0, b.n) || !s) {
                fprintf(out, "= bad-op\n");
                continue;
            }
            if (s->id)
                strophe_free(ctx, s->id);
            s->id = strophe_alloc(ctx, b.n + 1);
            memcpy(s->id, b.p, b.n);
            s->id[b.n] = 0;
            hbuf_free(&b);
            s->sm_support = s->sm_enabled = s->can_resume = 1;
            RES("= ok");
        } else if (n == 2 && (!strcmp(tok[0], "handled") || !strcmp(tok[0], "sentnr")) && h->conn->sm_state) {
            unsigned long v = strtoul(tok[1], NULL, 10);
            if (tok[0][0] == 'h')
                h->conn->sm_state->sm_handled_nr = (uint32_t)v;
            else
                h->conn->sm_state->sm_sent_nr = (uint32_t)v;
            RES("= ok");
        } else if (n == 2 && (!strcmp(tok[0], "su") || !strcmp(tok[0], "sl") || !strcmp(tok[0], "ss")) &&
                   h->conn->sm_state) {
            hbuf b;
            if (hparse(tok[1], &b) < 0 || !b.p) {
                fprintf(out, "= bad-op\n");
                continue;
            }
            if (tok[0][1] == 'u')
                xmpp_send_raw(h->conn, (char *)b.p, b.n);
            else
                send_raw(h->conn, (char *)b.p, b.n, tok[0][1] == 'l' ? XMPP_QUEUE_STROPHE : XMPP_QUEUE_SM_STROPHE, NULL);
            hbuf_free(&b);
            RES("= ok");
        } else if (n == 2 && !strcmp(tok[0], "w") && h->conn->sm_state) {
            hconn_set_schedule(h, tok[1]);
            xmpp_run_once(ctx, 0);
            RES("= ran");
        } else if (n == 1 && (!strcmp(tok[0], "dropo") || !strcmp(tok[0], "dropy")) && h->conn->sm_state) {
            char *r = xmpp_conn_send_queue_drop_element(
                h->conn, tok[0][4] == 'o' ? XMPP_QUEUE_OLDEST : XMPP_QUEUE_YOUNGEST);
            RES("= drop ");
            if (r) {
                hprint_hex(res, (unsigned char *)r, strlen(r));
                xmpp_free(ctx, r);
            } else
                RES("null");
        } else if (n == 1 && !strcmp(tok[0], "len")) {
            RES("= len %d", xmpp_conn_send_queue_len(h->conn));
        } else if (n == 1 && !strcmp(tok[0], "disc") && h->conn->sm_state) {
            conn_disconnect(h->conn);
            RES("= ok");
        } else if (n == 1 && !strcmp(tok[0], "ser") && h->conn->sm_state) {
            g_blob_calls = 0;
            trigger_sm_callback(h->conn);
            RES("= blob ");
            if (g_blob_calls && g_blob)
                hprint_hex(res, g_blob, g_blob_n);
            else
                RES("null");
        } else {
            fprintf(out, "= bad-op\n");
            if (res) {
                fclose(res);
                res = NULL;
            }
            continue;
        }
        check_links(h, out);
        fclose(res);
        res = NULL;
        fputs(*resbuf, out);
        tail(h, out);
    }
    if (h)
        hconn_free(h, 0);
    xmpp_ctx_free(ctx);
    free(*resbuf);
    free(g_blob);
    g_blob = NULL;
    if (hmem_live != 0)
        fprintf(out, "ORACLE-FAIL leak %ld\n", hmem_live);
    return 0;
}
