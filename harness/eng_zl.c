/* HARNESS wraps: deflate,inflate,parser_feed */
/* engine zl (C20): the real compression.c + the real zlib on top of a scripted lower transport.

   A real xmpp_conn_t (state CONNECTED, sm_state zeroed, sock = an fd on /dev/null so that
   conn_disconnect() closes something we own) whose `conn->intf` is the fake transport below;
   `init` calls compression_init(conn), which stacks compression_intf on top of it exactly as
   _handle_compress_result does.

   ops                                   output
   init full|sync                        = init <rc>            (sync = XMPP_CONN_FLAG_COMPRESSION_DONT_RESET)
   send H                                = q <send_queue_len>   (xmpp_send_raw: the normal send path)
   w a1,a2,...  | w -                    = io plain=H rets=.. net=H' calls=o:a,.. acked=N q=n pend=0|1 err=E st=c|d disc=k
        one REAL xmpp_run_once(ctx,0): write loop + intf->flush, then whatever the event loop does
        on the read side (select is wrapped: the socket is readable exactly while the lower
        transport has unread bytes or saw EOF; nothing is ever reported writable).  ai is the answer
        of the lower transport to its i-th write call in this op: all | <n> (accepts min(n,len)) |
        again (-1, EAGAIN) | err (-1, ECONNRESET); calls beyond the schedule get `all`.
        H' = the bytes the lower transport accepted, H = what was handed to parser_feed (wrapped:
        recorded, not parsed), rets = what conn->intf.read returned (observed by a pass-through shim).
   rxz H                                 same line
        one compressed fragment reaches the socket; the application keeps calling the REAL
        xmpp_run_once(ctx,0) until a call ends without having read anything (lower transport
        accepts everything).
   eof                                   like rxz, the lower read returns 0
   pend                                  = pend 0|1             (conn->intf.pending)
   end                                   = end live=<blocks still allocated after xmpp_conn_release>

   Lines `z d flush ain aout consumed rc H` / `z i ain aout consumed rc H` printed before the `=`
   line record every deflate()/inflate() call the library made (recorded-parameter replay, DESIGN
   §3.2); they are the Codec inputs of the Lean model.

   Model-free oracles (server side of the property), printed as ORACLE-FAIL <kind> ...:
     lost-bytes     bytes produced by deflate never reached the lower transport although later ones did
     dup-deflate    deflate was fed bytes that are not the continuation of the submitted stream
     corrupt-stream the server cannot inflate what it received / inflates something else (only when
                    neither of the two above explains it)
     not-flushed    end of an iteration in which the lower transport accepted every write completely,
                    and the server can inflate less than the write loop has taken from the queue
     read-mismatch  delivered plaintext is not a prefix of what the server deflated
     spurious-eof   read() returned <= 0 for a fragment of a healthy stream: the event loop closes
     read-stall     socket drained, intf->pending() == 0, yet delivered plaintext is shorter than what
                    the received compressed bytes inflate to (the rest sits inside zlib)
     pending-ignored  socket drained, intf->pending() == 1, but xmpp_run_once does not come back for
                    the input in the decompression buffer until the next socket event
     spurious-disconnect  the write loop disconnected although the lower transport reported no hard error
     leak           blocks still allocated after xmpp_conn_release
     hyp-zlib       the recorded zlib calls violate H-zlib (not a libstrophe defect) */
#include "hcommon.h"

#include <errno.h>
#include <fcntl.h>
#include <unistd.h>
#include <zlib.h>

/* ---------------- growable byte buffer ---------------- */
typedef struct {
    unsigned char *p;
    size_t n, cap;
} gb;

static void gb_add(gb *b, const void *p, size_t n)
{
    if (b->n + n + 1 > b->cap) {
        b->cap = (b->n + n + 1) * 2;
        b->p = realloc(b->p, b->cap);
    }
    if (n)
        memcpy(b->p + b->n, p, n);
    b->n += n;
}

static void gb_reset(gb *b)
{
    free(b->p);
    b->p = NULL;
    b->n = b->cap = 0;
}

/* length of the common prefix */
static size_t gb_common(const gb *a, const gb *b)
{
    size_t i = 0, m = a->n < b->n ? a->n : b->n;
    while (i < m && a->p[i] == b->p[i])
        i++;
    return i;
}

/* ---------------- recording wrappers around zlib ---------------- */
int __real_deflate(z_streamp strm, int flush);
int __real_inflate(z_streamp strm, int flush);

static int zl_active; /* only while the engine is driving the library */
static FILE *zl_out;

static gb zc_in, zc_out;   /* everything the library's deflate consumed / produced */
static gb ghost_plain;     /* zc_out inflated by an independent inflater (H-zlib check) */
static z_stream ghost;
static int ghost_on, hyp_failed;

static void hyp_fail(const char *what)
{
    if (!hyp_failed)
        fprintf(zl_out, "ORACLE-FAIL hyp-zlib %s\n", what);
    hyp_failed = 1;
}

/* feed bytes to an inflater owned by the harness, appending the plaintext; returns zlib rc */
static int feed_inflater(z_stream *z, const unsigned char *p, size_t n, gb *plain)
{
    unsigned char tmp[16384];
    int rc = Z_OK;
    z->next_in = (Bytef *)p;
    z->avail_in = (uInt)n;
    for (;;) {
        z->next_out = tmp;
        z->avail_out = sizeof(tmp);
        rc = __real_inflate(z, Z_SYNC_FLUSH);
        gb_add(plain, tmp, sizeof(tmp) - z->avail_out);
        if (rc == Z_BUF_ERROR) {
            rc = Z_OK; /* no progress possible: everything available has been delivered */
            break;
        }
        if (rc != Z_OK)
            break;
        if (z->avail_out != 0 && z->avail_in == 0)
            break;
    }
    return rc;
}

int __wrap_deflate(z_streamp strm, int flush)
{
    uInt ain, aout;
    Bytef *in0, *out0;
    int rc;
    size_t consumed, produced;
    if (!zl_active)
        return __real_deflate(strm, flush);
    ain = strm->avail_in;
    aout = strm->avail_out;
    in0 = strm->next_in;
    out0 = strm->next_out;
    rc = __real_deflate(strm, flush);
    consumed = (size_t)(strm->next_in - in0);
    produced = (size_t)(strm->next_out - out0);
    fprintf(zl_out, "z d %d %u %u %zu %d ", flush, ain, aout, consumed, rc);
    hprint_hex(zl_out, out0, produced);
    fputc('\n', zl_out);
    /* ghost bookkeeping + H-zlib */
    if (consumed > ain || produced > aout || consumed != ain - strm->avail_in ||
        produced != aout - strm->avail_out)
        hyp_fail("deflate-counts");
    gb_add(&zc_in, in0, consumed);
    gb_add(&zc_out, out0, produced);
    if (ghost_on) {
        int g = feed_inflater(&ghost, out0, produced, &ghost_plain);
        if (g != Z_OK)
            hyp_fail("deflate-output-not-inflatable");
        if (gb_common(&ghost_plain, &zc_in) != ghost_plain.n)
            hyp_fail("deflate-output-inflates-to-something-else");
        if (rc == Z_OK && flush != Z_NO_FLUSH && strm->avail_out > 0 &&
            (consumed != ain || ghost_plain.n != zc_in.n))
            hyp_fail("flush-with-space-left-incomplete");
        if (rc == Z_OK && flush == Z_NO_FLUSH && strm->avail_out > 0 && consumed != ain)
            hyp_fail("deflate-stopped-early");
        if (rc == Z_OK && consumed == 0 && produced == 0)
            hyp_fail("deflate-ok-without-progress");
        if (rc != Z_OK && rc != Z_BUF_ERROR)
            hyp_fail("deflate-error");
        if (rc == Z_BUF_ERROR && (consumed != 0 || produced != 0 || (ain > 0 && aout > 0)))
            hyp_fail("deflate-buf-error-although-progress-possible");
    }
    return rc;
}

int __wrap_inflate(z_streamp strm, int flush)
{
    uInt ain, aout;
    Bytef *in0, *out0;
    int rc;
    size_t consumed, produced;
    if (!zl_active)
        return __real_inflate(strm, flush);
    ain = strm->avail_in;
    aout = strm->avail_out;
    in0 = strm->next_in;
    out0 = strm->next_out;
    rc = __real_inflate(strm, flush);
    consumed = (size_t)(strm->next_in - in0);
    produced = (size_t)(strm->next_out - out0);
    fprintf(zl_out, "z i %u %u %zu %d ", ain, aout, consumed, rc);
    hprint_hex(zl_out, out0, produced);
    fputc('\n', zl_out);
    if (consumed > ain || produced > aout)
        hyp_fail("inflate-counts");
    if (rc == Z_OK && consumed == 0 && produced == 0)
        hyp_fail("inflate-ok-without-progress");
    if (rc == Z_BUF_ERROR && (consumed != 0 || produced != 0))
        hyp_fail("inflate-buf-error-with-progress");
    return rc;
}

/* ---------------- the scripted lower transport ---------------- */
enum { A_ALL, A_N, A_AGAIN, A_ERR };
typedef struct {
    int kind;
    size_t n;
} accept_t;

static struct {
    accept_t *sched;
    size_t nsched, pos;
    int err;              /* errno-like: set by failing calls, never cleared */
    gb net;               /* every byte accepted so far */
    gb op_net;            /* accepted during the current op */
    gb calls;             /* textual "offered:accepted,..." of the current op */
    int op_backpressure;  /* a call of the current op was not accepted completely */
    int op_hard_err;      /* a call of the current op was answered with the hard error */
    gb inq;               /* inbound compressed bytes not yet read */
    size_t inq_pos;
    int in_eof;
    int wrong_intf;
} lt;

static xmpp_conn_t *conn;

static int lt_write(struct conn_interface *intf, const void *buff, size_t len)
{
    accept_t a = {A_ALL, 0};
    char tmp[64];
    int ret;
    if (intf->conn != conn)
        lt.wrong_intf = 1;
    if (lt.pos < lt.nsched)
        a = lt.sched[lt.pos++];
    switch (a.kind) {
    case A_ALL:
        ret = (int)len;
        break;
    case A_N:
        ret = (int)(a.n < len ? a.n : len);
        break;
    case A_AGAIN:
        lt.err = EAGAIN;
        ret = -1;
        break;
    default:
        lt.err = ECONNRESET;
        lt.op_hard_err = 1;
        ret = -1;
        break;
    }
    if (ret > 0) {
        gb_add(&lt.net, buff, (size_t)ret);
        gb_add(&lt.op_net, buff, (size_t)ret);
    }
    if (ret != (int)len)
        lt.op_backpressure = 1;
    snprintf(tmp, sizeof(tmp), "%s%zu:%d", lt.calls.n ? "," : "", len, ret);
    gb_add(&lt.calls, tmp, strlen(tmp));
    return ret;
}

static int lt_read(struct conn_interface *intf, void *buff, size_t len)
{
    size_t have = lt.inq.n - lt.inq_pos, k;
    if (intf->conn != conn)
        lt.wrong_intf = 1;
    if (have == 0) {
        if (lt.in_eof)
            return 0;
        lt.err = EAGAIN;
        return -1;
    }
    k = have < len ? have : len;
    memcpy(buff, lt.inq.p + lt.inq_pos, k);
    lt.inq_pos += k;
    return (int)k;
}

static int lt_nop(struct conn_interface *intf)
{
    (void)intf;
    return 0;
}

static int lt_get_error(struct conn_interface *intf)
{
    (void)intf;
    return lt.err;
}

static int lt_is_recoverable(struct conn_interface *intf, int err)
{
    (void)intf;
    return err == EAGAIN || err == EINTR; /* as sock_is_recoverable */
}

static int lt_readable(void)
{
    return lt.inq.n > lt.inq_pos || lt.in_eof;
}

static const struct conn_interface lt_intf = {
    lt_read, lt_write, lt_nop, lt_nop, lt_get_error, lt_is_recoverable, NULL,
};

/* ---------------- observation points of the read branch ---------------- */
static gb rd_got;   /* plaintext handed to parser_feed during the current op */
static gb rd_rets;  /* textual list of intf->read results of the current op */
static int rd_closed_by_nonpositive, rd_lower_eof_seen;
static int (*real_upper_read)(struct conn_interface *intf, void *buff, size_t len);

int __real_parser_feed(parser_t *parser, char *chunk, int len);
int __wrap_parser_feed(parser_t *parser, char *chunk, int len)
{
    if (!zl_active)
        return __real_parser_feed(parser, chunk, len);
    gb_add(&rd_got, chunk, (size_t)len);
    return 1;
}

/* pass-through shim installed over compression_read: only logs the result */
static int shim_read(struct conn_interface *intf, void *buff, size_t len)
{
    char tmp[32];
    int at_eof = lt.in_eof && lt.inq.n == lt.inq_pos;
    int was_pending = intf->pending(intf);
    int ret = real_upper_read(intf, buff, len);
    snprintf(tmp, sizeof(tmp), "%s%d", rd_rets.n ? "," : "", ret);
    gb_add(&rd_rets, tmp, strlen(tmp));
    if (ret <= 0) {
        if (at_eof && !was_pending)
            rd_lower_eof_seen = 1;
        else
            rd_closed_by_nonpositive = 1;
    }
    return ret;
}

/* ---------------- per-case state ---------------- */
static xmpp_ctx_t *ctx;
static long live_base;
static int disc_events;
static gb submitted;       /* concatenation of everything queued with `send` */
static size_t submitted_total;
static z_stream srv;       /* the server's inflater over lt.net */
static int srv_on, srv_dead;
static size_t srv_fed;
static gb srv_plain;
static int f_lost, f_dup, f_corrupt;
/* read side */
static gb rx_all;          /* every compressed byte handed to the client */
static z_stream exp_z;     /* reference inflater over rx_all */
static int exp_on, exp_bad;
static size_t exp_fed;
static gb exp_plain, delivered;
static int f_rmis;

static void on_conn(xmpp_conn_t *c, xmpp_conn_event_t ev, int error,
                    xmpp_stream_error_t *se, void *ud)
{
    (void)c;
    (void)error;
    (void)se;
    (void)ud;
    if (ev == XMPP_CONN_DISCONNECT)
        disc_events++;
}

static void case_reset(void)
{
    if (conn) {
        zl_active = 0;
        xmpp_conn_release(conn);
        conn = NULL;
    }
    free(lt.sched);
    gb_reset(&lt.net);
    gb_reset(&lt.op_net);
    gb_reset(&lt.calls);
    gb_reset(&lt.inq);
    memset(&lt, 0, sizeof(lt));
    gb_reset(&zc_in);
    gb_reset(&zc_out);
    gb_reset(&ghost_plain);
    gb_reset(&submitted);
    gb_reset(&srv_plain);
    gb_reset(&rx_all);
    gb_reset(&exp_plain);
    gb_reset(&delivered);
    if (ghost_on)
        inflateEnd(&ghost);
    if (srv_on)
        inflateEnd(&srv);
    if (exp_on)
        inflateEnd(&exp_z);
    ghost_on = srv_on = exp_on = 0;
    hyp_failed = srv_dead = exp_bad = 0;
    srv_fed = submitted_total = exp_fed = 0;
    f_lost = f_dup = f_corrupt = f_rmis = 0;
    disc_events = 0;
}

static int do_init(int dont_reset)
{
    xmpp_sm_state_t *sm;
    int rc;
    live_base = hmem_live;
    conn = xmpp_conn_new(ctx);
    sm = hmem.alloc(sizeof(*sm), NULL);
    memset(sm, 0, sizeof(*sm));
    sm->ctx = ctx;
    xmpp_conn_set_sm_state(conn, sm);
    conn->conn_handler = on_conn;
    conn->sock = open("/dev/null", O_RDONLY);
    conn->intf = lt_intf;
    conn->intf.conn = conn;
    conn->state = XMPP_STATE_CONNECTED;
    conn->compression.allowed = 1;
    conn->compression.supported = 1; /* what compression_handle_feature_children("zlib") sets */
    conn->compression.dont_reset = dont_reset;
    memset(&ghost, 0, sizeof(ghost));
    memset(&srv, 0, sizeof(srv));
    memset(&exp_z, 0, sizeof(exp_z));
    ghost_on = inflateInit(&ghost) == Z_OK;
    srv_on = inflateInit(&srv) == Z_OK;
    exp_on = inflateInit(&exp_z) == Z_OK;
    zl_active = 1;
    rc = compression_init(conn);
    zl_active = 0;
    real_upper_read = conn->intf.read;
    conn->intf.read = shim_read;
    return rc;
}

static size_t queue_unwritten(void)
{
    size_t n = 0;
    xmpp_send_queue_t *sq;
    for (sq = conn->send_queue_head; sq; sq = sq->next)
        n += sq->len - sq->written;
    return n;
}

static void print_tail(FILE *out)
{
    fprintf(out, " err=%d st=%c disc=%d\n", conn->error,
            conn->state == XMPP_STATE_CONNECTED ? 'c' : 'd', disc_events);
}

static int parse_sched(char *s)
{
    char *p = s;
    size_t cap = 8;
    free(lt.sched);
    lt.sched = malloc(cap * sizeof(accept_t));
    lt.nsched = lt.pos = 0;
    if (strcmp(s, "-") == 0)
        return 0;
    while (*p) {
        char *e = strchr(p, ',');
        accept_t a = {A_ALL, 0};
        if (e)
            *e = 0;
        if (strcmp(p, "all") == 0)
            a.kind = A_ALL;
        else if (strcmp(p, "again") == 0)
            a.kind = A_AGAIN;
        else if (strcmp(p, "err") == 0)
            a.kind = A_ERR;
        else if (*p >= '0' && *p <= '9') {
            a.kind = A_N;
            a.n = (size_t)strtoul(p, NULL, 10);
        } else
            return -1;
        if (lt.nsched == cap) {
            cap *= 2;
            lt.sched = realloc(lt.sched, cap * sizeof(accept_t));
        }
        lt.sched[lt.nsched++] = a;
        if (!e)
            break;
        p = e + 1;
    }
    return 0;
}

/* server-side checks after one write-loop iteration */
static void write_oracle(FILE *out, size_t acked, int was_connected)
{
    size_t c;
    /* lost-bytes: what reached the lower transport must be a prefix of what deflate produced */
    c = gb_common(&lt.net, &zc_out);
    if (c != lt.net.n && !f_lost) {
        fprintf(out, "ORACLE-FAIL lost-bytes forwarded=%zu deflated=%zu first-difference-at=%zu\n",
                lt.net.n, zc_out.n, c);
        f_lost = 1;
    }
    /* dup-deflate: what deflate consumed must be a prefix of what was submitted */
    c = gb_common(&zc_in, &submitted);
    if (c != zc_in.n && !f_dup) {
        fprintf(out, "ORACLE-FAIL dup-deflate deflate-consumed=%zu submitted=%zu first-difference-at=%zu\n",
                zc_in.n, submitted.n, c);
        f_dup = 1;
    }
    /* the server inflates what it received */
    if (srv_on && !srv_dead && lt.net.n > srv_fed) {
        int rc = feed_inflater(&srv, lt.net.p + srv_fed, lt.net.n - srv_fed, &srv_plain);
        srv_fed = lt.net.n;
        if (rc != Z_OK) {
            srv_dead = 1;
            if (!f_lost && !f_dup && !f_corrupt) {
                fprintf(out, "ORACLE-FAIL corrupt-stream server-inflate-rc=%d after=%zu\n", rc,
                        srv_plain.n);
                f_corrupt = 1;
            }
        }
    }
    c = gb_common(&srv_plain, &submitted);
    if (c != srv_plain.n && !f_lost && !f_dup && !f_corrupt) {
        fprintf(out, "ORACLE-FAIL corrupt-stream server-sees-other-bytes-at=%zu\n", c);
        f_corrupt = 1;
    }
    if (was_connected && conn->state == XMPP_STATE_CONNECTED && !lt.op_backpressure && !f_lost &&
        !f_dup && !f_corrupt && !srv_dead && srv_plain.n < acked)
        fprintf(out, "ORACLE-FAIL not-flushed server-can-inflate=%zu taken-from-queue=%zu\n",
                srv_plain.n, acked);
}

/* Runs the REAL xmpp_run_once(ctx,0): once (`until_quiet` = 0: the op `w`), or as the
   application's loop does, again and again until a call ends without having read anything
   (`until_quiet` = 1: a fragment or EOF has reached the socket).  The wrapped select() reports the
   socket readable exactly while the lower transport has unread bytes or saw EOF. */
static void do_iterations(FILE *out, int until_quiet)
{
    int guard = 0;
    size_t acked;
    int was_connected = conn->state == XMPP_STATE_CONNECTED;
    gb_reset(&rd_got);
    gb_reset(&rd_rets);
    rd_closed_by_nonpositive = rd_lower_eof_seen = 0;
    gb_reset(&lt.op_net);
    gb_reset(&lt.calls);
    lt.op_backpressure = 0;
    lt.op_hard_err = 0;
    do {
        size_t reads_before = rd_rets.n;
        zl_active = 1;
        hselect_mode = lt_readable() ? 1 : 0;
        xmpp_run_once(ctx, 0);
        hselect_mode = 0;
        zl_active = 0;
        if (rd_rets.n == reads_before)
            break; /* nothing was read: the loop is idle until the next socket event */
    } while (until_quiet && conn->state == XMPP_STATE_CONNECTED && guard++ < 200000);
    gb_add(&delivered, rd_got.p, rd_got.n);
    acked = submitted_total - queue_unwritten();
    write_oracle(out, acked, was_connected);
    if (was_connected && conn->state != XMPP_STATE_CONNECTED && !lt.op_hard_err &&
        !rd_closed_by_nonpositive && !rd_lower_eof_seen)
        fprintf(out, "ORACLE-FAIL spurious-disconnect the-lower-transport-reported-no-hard-error conn-error=%d\n",
                conn->error);
    if (lt.wrong_intf)
        fprintf(out, "ORACLE-FAIL wrong-intf\n");
    /* reference: inflate everything the client was given */
    if (exp_on && !exp_bad && rx_all.n > exp_fed) {
        int rc = feed_inflater(&exp_z, rx_all.p + exp_fed, rx_all.n - exp_fed, &exp_plain);
        exp_fed = rx_all.n;
        if (rc != Z_OK)
            exp_bad = 1; /* the peer sent garbage / ended the stream: closing is right */
    }
    if (!exp_bad) {
        size_t c = gb_common(&delivered, &exp_plain);
        if (c != delivered.n && !f_rmis) {
            fprintf(out, "ORACLE-FAIL read-mismatch delivered=%zu expected=%zu first-difference-at=%zu\n",
                    delivered.n, exp_plain.n, c);
            f_rmis = 1;
        }
        if (rd_closed_by_nonpositive && conn->state != XMPP_STATE_CONNECTED)
            fprintf(out, "ORACLE-FAIL spurious-eof read-returned-nothing-on-a-healthy-stream delivered=%zu expected=%zu\n",
                    delivered.n, exp_plain.n);
        else if (until_quiet && conn->state == XMPP_STATE_CONNECTED && !f_rmis &&
                 delivered.n < exp_plain.n) {
            if (conn->intf.pending(&conn->intf))
                fprintf(out, "ORACLE-FAIL pending-ignored delivered=%zu expected=%zu socket-drained intf-pending=1\n",
                        delivered.n, exp_plain.n);
            else
                fprintf(out, "ORACLE-FAIL read-stall delivered=%zu expected=%zu socket-drained intf-pending=0\n",
                        delivered.n, exp_plain.n);
        }
    }
    fprintf(out, "= io plain=");
    hprint_hex(out, rd_got.p ? rd_got.p : (unsigned char *)"", rd_got.n);
    fprintf(out, " rets=%.*s net=", (int)(rd_rets.n ? rd_rets.n : 1), rd_rets.n ? (char *)rd_rets.p : "-");
    hprint_hex(out, lt.op_net.p ? lt.op_net.p : (unsigned char *)"", lt.op_net.n);
    fprintf(out, " calls=%.*s acked=%zu q=%d pend=%d", (int)(lt.calls.n ? lt.calls.n : 1),
            lt.calls.n ? (char *)lt.calls.p : "-", acked, conn->send_queue_len,
            conn->intf.pending(&conn->intf) ? 1 : 0);
    print_tail(out);
}

int eng_zl(FILE *in, FILE *out)
{
    char *line;
    ctx = xmpp_ctx_new(&hmem, &hlog_quiet);
    zl_out = out;
    hselect_mode = 0;
    while ((line = hreadline(in))) {
        char *tok[4];
        int n = hsplit(line, tok, 4);
        if (n == 1 && strcmp(tok[0], "case") == 0) {
            case_reset();
            fprintf(out, "= case\n");
            continue;
        }
        if (n == 2 && strcmp(tok[0], "init") == 0 && !conn &&
            (strcmp(tok[1], "full") == 0 || strcmp(tok[1], "sync") == 0)) {
            int rc = do_init(strcmp(tok[1], "sync") == 0);
            fprintf(out, "= init %d\n", rc);
            continue;
        }
        if (!conn) {
            fprintf(out, "= bad-op\n");
            continue;
        }
        if (n == 2 && strcmp(tok[0], "send") == 0) {
            hbuf b;
            if (hparse(tok[1], &b) < 0 || !b.p) {
                fprintf(out, "= bad-op\n");
                continue;
            }
            if (conn->state == XMPP_STATE_CONNECTED) {
                gb_add(&submitted, b.p, b.n);
                submitted_total += b.n;
            }
            xmpp_send_raw(conn, (const char *)b.p, b.n);
            fprintf(out, "= q %d\n", conn->send_queue_len);
            hbuf_free(&b);
        } else if (n == 2 && strcmp(tok[0], "w") == 0) {
            if (parse_sched(tok[1]) < 0) {
                fprintf(out, "= bad-op\n");
                continue;
            }
            do_iterations(out, 0);
        } else if (n == 2 && strcmp(tok[0], "rxz") == 0) {
            hbuf b;
            if (hparse(tok[1], &b) < 0 || !b.p) {
                fprintf(out, "= bad-op\n");
                continue;
            }
            gb_add(&lt.inq, b.p, b.n);
            gb_add(&rx_all, b.p, b.n);
            hbuf_free(&b);
            parse_sched((char *)"-");
            do_iterations(out, 1);
        } else if (n == 1 && strcmp(tok[0], "eof") == 0) {
            lt.in_eof = 1;
            parse_sched((char *)"-");
            do_iterations(out, 1);
        } else if (n == 1 && strcmp(tok[0], "pend") == 0) {
            fprintf(out, "= pend %d\n", conn->intf.pending(&conn->intf) ? 1 : 0);
        } else if (n == 1 && strcmp(tok[0], "end") == 0) {
            long live;
            xmpp_conn_release(conn);
            conn = NULL;
            live = hmem_live - live_base;
            if (live != 0)
                fprintf(out, "ORACLE-FAIL leak blocks=%ld after-xmpp_conn_release\n", live);
            fprintf(out, "= end live=%ld\n", live);
        } else
            fprintf(out, "= bad-op\n");
    }
    case_reset();
    xmpp_ctx_free(ctx);
    return 0;
}
