/* engine xml (C10): libstrophe's assembly layer above expat, with recorded-parameter replay.

     feed H     one chunk to the library parser (parser_feed) and to a second, independent raw
                expat parser created by the harness with the library's namespace separator
     reset      parser_reset() on the library parser, XML_ParserReset() on the raw parser
     end        end of one delivery: both parsers are freed, every allocation must be gone
                (the next feed/reset starts a new pair of parsers)

   Output per op:
     cb s <hexnsname> <hexk>=<hexv>,...|-     raw expat callbacks for this op, in order — these
     cb e <hexnsname>                          lines are the INPUT of the Lean model
     cb c <hextext>                            (annotated trace)
     cb err                                    XML_Parse on the raw parser reported an error
     = ev <e1> | <e2> | ...    or   = ev -     what the library delivered during this op:
         open <hexname> <hexk>=<hexv>,...|-      stream start callback (name, attribute array)
         stanza <tree>                           stanza callback, tree walked with the accessor API
         close <hexnsname>                       stream end callback
         error                                   parser_feed returned failure
     tree  := '<' hexname|- ':' hexns|- ':[' hexk=hexv,... ']' (tree | '"' hextext|- '"')* '>'
              (attributes sorted by key)

   parser_expat.c installs a process-global allocator context, so ONE xmpp_ctx_t per process. */
#include "hcommon.h"
#include "parser.h"
#include <expat.h>

typedef struct {
    char *p;
    size_t n, cap;
} sbuf;

static void sb_put(sbuf *b, const char *s, size_t n)
{
    if (b->n + n + 1 > b->cap) {
        b->cap = (b->n + n + 1) * 2 + 64;
        b->p = realloc(b->p, b->cap);
    }
    memcpy(b->p + b->n, s, n);
    b->n += n;
    b->p[b->n] = 0;
}

static void sb_str(sbuf *b, const char *s)
{
    sb_put(b, s, strlen(s));
}

/* hex of a C string; NULL -> "-", "" -> "." */
static void sb_hex(sbuf *b, const char *s)
{
    static const char d[] = "0123456789abcdef";
    size_t i, n;
    if (!s) {
        sb_put(b, "-", 1);
        return;
    }
    n = strlen(s);
    if (n == 0) {
        sb_put(b, ".", 1);
        return;
    }
    for (i = 0; i < n; i++) {
        char c[2];
        c[0] = d[((unsigned char)s[i]) >> 4];
        c[1] = d[((unsigned char)s[i]) & 15];
        sb_put(b, c, 2);
    }
}

static void sb_attr_array(sbuf *b, const char **attrs)
{
    int i;
    if (!attrs || !attrs[0]) {
        sb_put(b, "-", 1);
        return;
    }
    for (i = 0; attrs[i]; i += 2) {
        if (i)
            sb_put(b, ",", 1);
        sb_hex(b, attrs[i]);
        sb_put(b, "=", 1);
        sb_hex(b, attrs[i + 1]);
    }
}

/* ---- library side: events ---- */

static sbuf evbuf;
static int evcount;

static void ev_begin(void)
{
    if (evcount++)
        sb_str(&evbuf, " | ");
}

static int cmp_pair(const void *a, const void *b)
{
    const char *const *x = a, *const *y = b;
    return strcmp(x[0], y[0]);
}

static void tree(sbuf *b, xmpp_stanza_t *st)
{
    xmpp_stanza_t *c;
    int n, i;
    if (xmpp_stanza_is_text(st)) {
        sb_put(b, "\"", 1);
        sb_hex(b, xmpp_stanza_get_text_ptr(st));
        sb_put(b, "\"", 1);
        return;
    }
    sb_put(b, "<", 1);
    sb_hex(b, xmpp_stanza_get_name(st));
    sb_put(b, ":", 1);
    sb_hex(b, xmpp_stanza_get_ns(st));
    sb_put(b, ":[", 2);
    n = xmpp_stanza_get_attribute_count(st);
    if (n > 0) {
        const char **arr = calloc((size_t)n * 2, sizeof(char *));
        int got = xmpp_stanza_get_attributes(st, arr, n * 2);
        qsort(arr, (size_t)(got / 2), 2 * sizeof(char *), cmp_pair);
        for (i = 0; i + 1 < got; i += 2) {
            if (i)
                sb_put(b, ",", 1);
            sb_hex(b, arr[i]);
            sb_put(b, "=", 1);
            sb_hex(b, arr[i + 1]);
        }
        free(arr);
    }
    sb_put(b, "]", 1);
    for (c = xmpp_stanza_get_children(st); c; c = xmpp_stanza_get_next(c))
        tree(b, c);
    sb_put(b, ">", 1);
}

static void lib_start(char *name, char **attrs, void *ud)
{
    (void)ud;
    ev_begin();
    sb_str(&evbuf, "open ");
    sb_hex(&evbuf, name);
    sb_put(&evbuf, " ", 1);
    sb_attr_array(&evbuf, (const char **)attrs);
}

static void lib_end(char *name, void *ud)
{
    (void)ud;
    ev_begin();
    sb_str(&evbuf, "close ");
    sb_hex(&evbuf, name);
}

static void lib_stanza(xmpp_stanza_t *st, void *ud)
{
    (void)ud;
    ev_begin();
    sb_str(&evbuf, "stanza ");
    tree(&evbuf, st);
}

/* ---- raw side: callback trace ---- */

static sbuf cbbuf;

static void raw_start(void *ud, const XML_Char *nsname, const XML_Char **attrs)
{
    (void)ud;
    sb_str(&cbbuf, "cb s ");
    sb_hex(&cbbuf, nsname);
    sb_put(&cbbuf, " ", 1);
    sb_attr_array(&cbbuf, attrs);
    sb_put(&cbbuf, "\n", 1);
}

static void raw_end(void *ud, const XML_Char *nsname)
{
    (void)ud;
    sb_str(&cbbuf, "cb e ");
    sb_hex(&cbbuf, nsname);
    sb_put(&cbbuf, "\n", 1);
}

static void raw_chars(void *ud, const XML_Char *s, int len)
{
    static const char d[] = "0123456789abcdef";
    int i;
    (void)ud;
    sb_str(&cbbuf, "cb c ");
    if (len == 0)
        sb_put(&cbbuf, ".", 1);
    for (i = 0; i < len; i++) {
        char c[2];
        c[0] = d[((unsigned char)s[i]) >> 4];
        c[1] = d[((unsigned char)s[i]) & 15];
        sb_put(&cbbuf, c, 2);
    }
    sb_put(&cbbuf, "\n", 1);
}

/* Expat >= 2.6.0 (and distribution back-ports of it into older version numbers) defers
   re-parsing of an unfinished token until the buffered amount has doubled.  Whether the
   library switches that off is observed on the library itself (probe below) and mirrored on
   the raw parser, so that both instances see the same configuration. */
extern XML_Bool XML_SetReparseDeferralEnabled(XML_Parser parser, XML_Bool enabled)
    __attribute__((weak));
static int lib_defers;

static void raw_setup(XML_Parser p)
{
    XML_SetElementHandler(p, raw_start, raw_end);
    XML_SetCharacterDataHandler(p, raw_chars);
    if (!lib_defers && XML_SetReparseDeferralEnabled)
        XML_SetReparseDeferralEnabled(p, XML_FALSE);
}

static XML_Parser raw_new(void)
{
    /* the separator is read from the library, not repeated here */
    extern const XML_Char namespace_sep;
    XML_Parser p = XML_ParserCreateNS(NULL, namespace_sep);
    raw_setup(p);
    return p;
}

static int probe_stanzas;
static void probe_stanza(xmpp_stanza_t *st, void *ud)
{
    (void)st;
    (void)ud;
    probe_stanzas++;
}

/* 1 if a token completed by a short second read is not delivered at once */
static int probe_deferral(xmpp_ctx_t *ctx)
{
    static char a[] = "<a>", b[] = "<bbbbbbbbbbbbbbbbbbbbbbbbbbbbbbbb", c[] = "/>";
    parser_t *p = parser_new(ctx, NULL, NULL, probe_stanza, NULL);
    probe_stanzas = 0;
    parser_feed(p, a, (int)strlen(a));
    parser_feed(p, b, (int)strlen(b));
    parser_feed(p, c, (int)strlen(c));
    parser_free(p);
    return probe_stanzas == 0;
}

int eng_xml(FILE *in, FILE *out)
{
    xmpp_ctx_t *ctx = xmpp_ctx_new(&hmem, &hlog_quiet);
    long baseline = hmem_live;
    parser_t *lib = NULL;
    XML_Parser raw = NULL;
    char *line;

    lib_defers = probe_deferral(ctx);
    if (hmem_live != baseline)
        fprintf(out, "ORACLE-FAIL leak-probe %ld\n", hmem_live - baseline);

    while ((line = hreadline(in))) {
        char *tok[3];
        int n = hsplit(line, tok, 3);
        int is_feed = n == 2 && strcmp(tok[0], "feed") == 0;
        int is_reset = n == 1 && strcmp(tok[0], "reset") == 0;
        int is_end = n == 1 && strcmp(tok[0], "end") == 0;

        if (n == 1 && strcmp(tok[0], "case") == 0) {
            if (lib)
                parser_free(lib);
            if (raw)
                XML_ParserFree(raw);
            lib = NULL;
            raw = NULL;
            fprintf(out, "= case\n");
            continue;
        }
        if (!is_feed && !is_reset && !is_end) {
            fprintf(out, "= bad-op\n");
            continue;
        }
        evbuf.n = 0;
        cbbuf.n = 0;
        evcount = 0;
        if (!lib && !is_end) {
            lib = parser_new(ctx, lib_start, lib_end, lib_stanza, NULL);
            raw = raw_new();
        }
        if (is_feed) {
            hbuf b;
            if (hparse(tok[1], &b) < 0 || !b.p) {
                fprintf(out, "= bad-op\n");
                continue;
            }
            /* raw parser first: the recorded callbacks are on stdout before the library runs */
            if (XML_Parse(raw, (const char *)b.p, (int)b.n, 0) == XML_STATUS_ERROR)
                sb_str(&cbbuf, "cb err\n");
            if (cbbuf.n)
                fwrite(cbbuf.p, 1, cbbuf.n, out);
            fflush(out);
            if (!parser_feed(lib, (char *)b.p, (int)b.n)) {
                ev_begin();
                sb_str(&evbuf, "error");
            }
            hbuf_free(&b);
        } else if (is_reset) {
            /* the raw parser is restarted the way parser_reset restarts the library's: both
               instances then have the same history (buffer sizes included) */
            if (XML_ParserReset(raw, NULL) != XML_TRUE) {
                XML_ParserFree(raw);
                raw = raw_new();
            } else
                raw_setup(raw);
            fflush(out);
            if (!parser_reset(lib))
                fprintf(out, "ORACLE-FAIL reset-failed\n");
        } else {
            fflush(out);
            if (lib)
                parser_free(lib);
            if (raw)
                XML_ParserFree(raw);
            lib = NULL;
            raw = NULL;
            if (hmem_live != baseline)
                fprintf(out, "ORACLE-FAIL leak %ld\n", hmem_live - baseline);
        }
        if (evcount)
            fprintf(out, "= ev %s\n", evbuf.p);
        else
            fprintf(out, "= ev -\n");
    }
    if (lib)
        parser_free(lib);
    if (raw)
        XML_ParserFree(raw);
    if (hmem_live != baseline)
        fprintf(out, "ORACLE-FAIL leak %ld\n", hmem_live - baseline);
    xmpp_ctx_free(ctx);
    free(evbuf.p);
    free(cbbuf.p);
    return 0;
}
