/* Compiles /repo/src/rand.c as part of this unit (`HARNESS replaces: rand.c`) with its ONLY
   entropy source, the getrandom(2) system call, redirected to hx_getrandom():
     - while a script is installed (hx_rand_script) the bytes come from the op, in order; when
       the script is exhausted zero bytes are delivered (the model does the same);
     - without a script the call goes to the real getrandom(2) (used by the freshness op).
   Everything else of rand.c (xmpp_rand_bytes, xmpp_rand, xmpp_rand_nonce and its hex rendering)
   is the real code. */
#include <sys/types.h>
#include <sys/random.h>
#include <errno.h>
#include <string.h>

ssize_t hx_getrandom(void *buf, size_t n, unsigned int flags);

#define getrandom hx_getrandom
#include "rand.c"
#undef getrandom

#ifndef USE_GETRANDOM
#error "fake_rand.c expects the getrandom() variant of rand.c (as built on this host)"
#endif

static const unsigned char *script = NULL;
static size_t script_n = 0, script_pos = 0;
long hx_rand_calls = 0;
long hx_rand_bytes_served = 0;

void hx_rand_script(const unsigned char *p, size_t n)
{
    script = p;
    script_n = n;
    script_pos = 0;
    hx_rand_calls = 0;
    hx_rand_bytes_served = 0;
}

ssize_t hx_getrandom(void *buf, size_t n, unsigned int flags)
{
    size_t k;
    hx_rand_calls++;
    hx_rand_bytes_served += (long)n;
    if (!script)
        return getrandom(buf, n, flags);
    k = script_n - script_pos;
    if (k > n)
        k = n;
    memcpy(buf, script + script_pos, k);
    script_pos += k;
    memset((unsigned char *)buf + k, 0, n - k);
    return (ssize_t)n;
}
