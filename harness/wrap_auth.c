/* Compiles /repo/src/auth.c as part of this unit (the library's own auth.o is left out of the
   link: `HARNESS replaces: auth.c`) so that its static functions can be reached (C07):
     _make_scram_init_msg, _handle_scram_challenge, _handle_digestmd5_challenge, _auth,
     _auth_legacy, _handle_component_auth.
   `struct scram_user_data` is private to auth.c, so the engine handles it through the opaque
   accessors below.  Nothing of auth.c is changed or re-implemented here. */
#include "auth.c"

/* what _auth() does before calling _make_scram_init_msg(): allocate, zero, choose alg, set conn
   and sasl_plus from the alg's mask */
void *hx_scram_new(xmpp_conn_t *conn, const struct hash_alg *alg)
{
    struct scram_user_data *s = strophe_alloc(conn->ctx, sizeof(*s));
    memset(s, 0, sizeof(*s));
    s->alg = alg;
    s->conn = conn;
    s->sasl_plus = alg->mask & SASL_MASK_SCRAM_PLUS ? 1 : 0;
    return s;
}

int hx_scram_init(void *p)
{
    return _make_scram_init_msg((struct scram_user_data *)p);
}

const char *hx_scram_first(void *p)
{
    return ((struct scram_user_data *)p)->scram_init;
}

const char *hx_scram_cb(void *p)
{
    return ((struct scram_user_data *)p)->channel_binding;
}

/* offset of first_bare inside scram_init, -1 if it does not point into it */
long hx_scram_first_bare_off(void *p)
{
    struct scram_user_data *s = p;
    size_t n;
    if (!s->scram_init || !s->first_bare)
        return -1;
    n = strlen(s->scram_init);
    if (s->first_bare < s->scram_init || s->first_bare > s->scram_init + n)
        return -1;
    return (long)(s->first_bare - s->scram_init);
}

/* the release sequence of _handle_scram_challenge's non-challenge branch */
void hx_scram_free(xmpp_conn_t *conn, void *p)
{
    struct scram_user_data *s = p;
    strophe_free_and_null(conn->ctx, s->channel_binding);
    strophe_free_and_null(conn->ctx, s->scram_init);
    strophe_free(conn->ctx, s);
}

/* after a failed _make_scram_init_msg() _auth() frees only the record */
void hx_scram_free_record(xmpp_conn_t *conn, void *p)
{
    strophe_free(conn->ctx, p);
}

int hx_scram_challenge(xmpp_conn_t *conn, xmpp_stanza_t *stanza, void *p)
{
    return _handle_scram_challenge(conn, stanza, p);
}

int hx_digest_challenge(xmpp_conn_t *conn, xmpp_stanza_t *stanza)
{
    return _handle_digestmd5_challenge(conn, stanza, NULL);
}

void hx_auth(xmpp_conn_t *conn)
{
    _auth(conn);
}

void hx_auth_legacy(xmpp_conn_t *conn)
{
    _auth_legacy(conn);
}

int hx_component_auth(xmpp_conn_t *conn)
{
    return _handle_component_auth(conn);
}
