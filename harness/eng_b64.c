/* engine b64 (C18): enc H | decbin H | decstr H */
#include "hcommon.h"

static void dec_once(xmpp_ctx_t *ctx, const hbuf *in, unsigned char fill,
                     unsigned char **out, size_t *outlen)
{
    hmem_fill = fill;
    xmpp_base64_decode_bin(ctx, (const char *)in->p, in->n, out, outlen);
}

int eng_b64(FILE *in, FILE *out)
{
    xmpp_ctx_t *ctx = xmpp_ctx_new(&hmem, &hlog_quiet);
    char *line;
    while ((line = hreadline(in))) {
        char *tok[4];
        int n = hsplit(line, tok, 4);
        hbuf b;
        if (n != 2 || hparse(tok[1], &b) < 0 || !b.p) {
            fprintf(out, "= bad-op\n");
            continue;
        }
        if (strcmp(tok[0], "enc") == 0) {
            char *s = xmpp_base64_encode(ctx, b.p, b.n);
            if (s) {
                fprintf(out, "= ok ");
                hprint_hex(out, (unsigned char *)s, strlen(s));
                fputc('\n', out);
                xmpp_free(ctx, s);
            } else
                fprintf(out, "= null\n");
        } else if (strcmp(tok[0], "decbin") == 0) {
            unsigned char *o1, *o2;
            size_t l1, l2;
            /* decode twice under two allocator fill patterns: bytes that differ were never
               written by the decoder (uninitialised data handed out). */
            dec_once(ctx, &b, 0xA5, &o1, &l1);
            dec_once(ctx, &b, 0x5A, &o2, &l2);
            if ((o1 == NULL) != (o2 == NULL) || l1 != l2)
                fprintf(out, "ORACLE-FAIL nondeterministic\n");
            if (o1 && o2) {
                if (memcmp(o1, o2, l1) != 0 || o1[l1] != 0 || o2[l2] != 0)
                    fprintf(out, "ORACLE-FAIL uninit\n");
                fprintf(out, "= ok ");
                /* print only the bytes both runs agree on as "written" prefix */
                {
                    size_t k = 0;
                    while (k < l1 && o1[k] == o2[k])
                        k++;
                    hprint_hex(out, o1, k);
                }
                fprintf(out, " %zu\n", l1);
            } else {
                if (l1 != 0)
                    fprintf(out, "ORACLE-FAIL null-with-length\n");
                fprintf(out, "= null\n");
            }
            if (o1)
                xmpp_free(ctx, o1);
            if (o2)
                xmpp_free(ctx, o2);
        } else if (strcmp(tok[0], "decstr") == 0) {
            char *s;
            hmem_fill = 0xA5;
            s = xmpp_base64_decode_str(ctx, (const char *)b.p, b.n);
            if (s) {
                fprintf(out, "= ok ");
                hprint_hex(out, (unsigned char *)s, strlen(s));
                fputc('\n', out);
                xmpp_free(ctx, s);
            } else
                fprintf(out, "= null\n");
        } else
            fprintf(out, "= bad-op\n");
        hbuf_free(&b);
    }
    xmpp_ctx_free(ctx);
    if (hmem_live != 0)
        fprintf(out, "ORACLE-FAIL leak %ld\n", hmem_live);
    return 0;
}
