/* HARNESS replaces: sock.c, tls_openssl.c, rand.c */
/* HARNESS extra: fake_sock.c, fake_tls.c, fake_rand.c */
/* HARNESS wraps: parser_new,parser_feed */
/* engine conn (C01, C02, C03, C04, C05, C13): a real xmpp_conn_t (conn.c, auth.c, handler.c,
   event.c, parser_expat.c + expat, stanza.c, sasl.c …) over a scripted network (fake sock, fake
   TLS, zero-byte RNG, virtual clock).

   ops
     new J P F T C     create the connection: jid J (hex|-), password P (hex|-), flags F (decimal),
                       type T (c client, k component, r raw), C = 1 pretends a client certificate
     connect           xmpp_connect_client/_component/_raw            -> rc
     run               one xmpp_run_once(ctx, 0)
     rx H | eof | ioerr    script one inbound read result, then one xmpp_run_once
     tcpfail 0|1 , tcperr N , tls ok|fail|nonew     script the next connect / handshake results
     wr S              accept schedule for the following write calls (all | again | err, comma list;
                       "all" = everything from now on)
     tick MS           advance the virtual clock
     usend ID | uraw H | urawstr H | udisc | setflags N | release | uhandlers | smcb
   output
     lines `pe open ID|-`, `pe stanza TREE`, `pe end`, `pe error` as the library's parser delivers
     events to conn.c (recorded parameter for the model), then
     `= RESULT | tx ITEMS | ev EVENTS | st S neg N sec X q K`
       ITEMS  elements completely written during the op, classified, `/s` written through TLS,
              `/p` in the clear
       EVENTS connection-handler events CONNECT, RAW, DISCONNECT:<error>:<condition>:<text hex>,
              user handler invocations uh:<name>:<id hex>, uid:<id hex>, ut (timed)
       S      c connected / i connecting / d disconnected (from the three public predicates;
              ORACLE-FAIL if not exactly one holds) */
#include <errno.h>
#include <sys/select.h>
#include "fake_net.h"
#include "hconn.h"
#include "parser.h"

void hx_rand_script(const unsigned char *p, size_t n);

static FILE *g_out;
static xmpp_ctx_t *g_ctx;
static xmpp_conn_t *g_conn;
static char g_events[4096];
static int g_type = 'c';
static int g_send_on_connect;
static char g_althost[128]; /* host to connect to instead of the JID's domain ("" = none) */
static int g_released;
static int g_disconnects_this_attempt, g_connects_this_attempt, g_attempt_open;

/* ------------------------------------------------------------------ tree dump */

static int cmpstr(const void *a, const void *b)
{
    return strcmp(*(const char *const *)a, *(const char *const *)b);
}

static void dump_tree(FILE *f, xmpp_stanza_t *s)
{
    if (xmpp_stanza_is_text(s)) {
        const char *t = xmpp_stanza_get_text_ptr(s);
        fputc('"', f);
        hprint_hex(f, (const unsigned char *)(t ? t : ""), t ? strlen(t) : 0);
        fputc('"', f);
        return;
    }
    {
        const char *name = xmpp_stanza_get_name(s);
        const char *ns = xmpp_stanza_get_ns(s);
        int n = xmpp_stanza_get_attribute_count(s), i, first = 1;
        xmpp_stanza_t *c;
        fputc('(', f);
        hprint_hex(f, (const unsigned char *)(name ? name : ""), name ? strlen(name) : 0);
        fputc(' ', f);
        if (ns)
            hprint_hex(f, (const unsigned char *)ns, strlen(ns));
        else
            fputc('-', f);
        fputc(' ', f);
        if (n > 0) {
            const char **arr = malloc(sizeof(char *) * 2 * (size_t)n);
            const char **keys = malloc(sizeof(char *) * (size_t)n);
            xmpp_stanza_get_attributes(s, arr, 2 * n);
            for (i = 0; i < n; i++)
                keys[i] = arr[2 * i];
            qsort(keys, (size_t)n, sizeof(char *), cmpstr);
            for (i = 0; i < n; i++) {
                const char *v;
                if (!strcmp(keys[i], "xmlns"))
                    continue;
                v = xmpp_stanza_get_attribute(s, keys[i]);
                fprintf(f, "%s", first ? "" : ";");
                hprint_hex(f, (const unsigned char *)keys[i], strlen(keys[i]));
                fputc('=', f);
                hprint_hex(f, (const unsigned char *)v, strlen(v));
                first = 0;
            }
            free(arr);
            free(keys);
        }
        if (first)
            fputc('-', f);
        for (c = xmpp_stanza_get_children(s); c; c = xmpp_stanza_get_next(c)) {
            fputc(' ', f);
            dump_tree(f, c);
        }
        fputc(')', f);
    }
}

/* ------------------------------------------------------------------ parser interposition */

static parser_start_callback o_start;
static parser_end_callback o_end;
static parser_stanza_callback o_stanza;

static void t_start(char *name, char **attrs, void *ud)
{
    const char *id = NULL;
    int i;
    for (i = 0; attrs && attrs[i]; i += 2)
        if (!strcmp(attrs[i], "id"))
            id = attrs[i + 1];
    fprintf(g_out, "pe open ");
    hprint_hex(g_out, (const unsigned char *)name, strlen(name));
    fputc(' ', g_out);
    if (id)
        hprint_hex(g_out, (const unsigned char *)id, strlen(id));
    else
        fputc('-', g_out);
    fputc('\n', g_out);
    o_start(name, attrs, ud);
}

static void t_end(char *name, void *ud)
{
    fprintf(g_out, "pe end\n");
    o_end(name, ud);
}

static void t_stanza(xmpp_stanza_t *st, void *ud)
{
    fprintf(g_out, "pe stanza ");
    dump_tree(g_out, st);
    fputc('\n', g_out);
    o_stanza(st, ud);
}

parser_t *__real_parser_new(xmpp_ctx_t *ctx, parser_start_callback s, parser_end_callback e,
                            parser_stanza_callback st, void *ud);
static int g_intercept; /* set only while xmpp_conn_new() creates the connection's parser */

parser_t *__wrap_parser_new(xmpp_ctx_t *ctx, parser_start_callback s, parser_end_callback e,
                            parser_stanza_callback st, void *ud)
{
    if (!g_intercept)
        return __real_parser_new(ctx, s, e, st, ud);
    o_start = s;
    o_end = e;
    o_stanza = st;
    return __real_parser_new(ctx, t_start, t_end, t_stanza, ud);
}

int __real_parser_feed(parser_t *parser, char *chunk, int len);
int __wrap_parser_feed(parser_t *parser, char *chunk, int len)
{
    int r = __real_parser_feed(parser, chunk, len);
    if (!r && g_conn && parser == g_conn->parser)
        fprintf(g_out, "pe error\n");
    return r;
}

/* ------------------------------------------------------------------ classification of output */

static const char *child_text_hex(xmpp_stanza_t *s, const char *child, char *buf, size_t n)
{
    xmpp_stanza_t *c = s ? xmpp_stanza_get_child_by_name(s, child) : NULL;
    char *t = c ? xmpp_stanza_get_text(c) : NULL;
    size_t i, l;
    static const char d[] = "0123456789abcdef";
    if (!t) {
        snprintf(buf, n, "-");
        return buf;
    }
    l = strlen(t);
    if (l == 0)
        snprintf(buf, n, ".");
    else {
        for (i = 0; i < l && 2 * i + 2 < n; i++) {
            buf[2 * i] = d[(unsigned char)t[i] >> 4];
            buf[2 * i + 1] = d[(unsigned char)t[i] & 15];
        }
        buf[2 * i] = 0;
    }
    xmpp_free(g_ctx, t);
    return buf;
}

static void hexs(const char *s, char *buf, size_t n)
{
    static const char d[] = "0123456789abcdef";
    size_t i, l;
    if (!s) {
        snprintf(buf, n, "-");
        return;
    }
    l = strlen(s);
    if (l == 0) {
        snprintf(buf, n, ".");
        return;
    }
    for (i = 0; i < l && 2 * i + 2 < n; i++) {
        buf[2 * i] = d[(unsigned char)s[i] >> 4];
        buf[2 * i + 1] = d[(unsigned char)s[i] & 15];
    }
    buf[2 * i] = 0;
}

static const char *attr_of(const char *text, const char *key, char *buf, size_t n)
{
    /* attribute of the stream header, rendered by _conn_build_stream_tag as key="value" */
    char pat[64];
    const char *p, *e;
    snprintf(pat, sizeof(pat), " %s=\"", key);
    p = strstr(text, pat);
    if (!p)
        return NULL;
    p += strlen(pat);
    e = strchr(p, '"');
    if (!e || (size_t)(e - p) >= n)
        return NULL;
    memcpy(buf, p, (size_t)(e - p));
    buf[e - p] = 0;
    return buf;
}

static void classify(const char *text, size_t len, char *out, size_t n)
{
    xmpp_stanza_t *s;
    char a[2100], b[2100], c[2100];
    const char *name, *ns, *id;
    if (len >= 5 && !memcmp(text, "<?xml", 5)) {
        char to[1100], from[1100], xmlns[200];
        char *z = malloc(len + 1);
        memcpy(z, text, len);
        z[len] = 0;
        hexs(attr_of(z, "to", to, sizeof(to)), a, sizeof(a));
        hexs(attr_of(z, "from", from, sizeof(from)), b, sizeof(b));
        attr_of(z, "xmlns", xmlns, sizeof(xmlns));
        snprintf(out, n, "hdr:%s:%s:%s", a, b, strstr(xmlns, "component") ? "k" : "c");
        free(z);
        return;
    }
    if (len == 16 && !memcmp(text, "</stream:stream>", 16)) {
        snprintf(out, n, "close");
        return;
    }
    {
        char *z = malloc(len + 1), *q;
        memcpy(z, text, len);
        z[len] = 0;
        /* the stream prefix is declared on the stream header, not on the element: drop it */
        while ((q = strstr(z, "stream:error")) != NULL)
            memmove(q, q + 7, strlen(q + 7) + 1);
        s = strlen(z) + (len - strlen(z)) == len && !memchr(text, 0, len) ? xmpp_stanza_new_from_string(g_ctx, z) : NULL;
        free(z);
    }
    if (!s) {
        snprintf(out, n, "raw:%zu", len);
        return;
    }
    name = xmpp_stanza_get_name(s);
    ns = xmpp_stanza_get_ns(s);
    id = xmpp_stanza_get_id(s);
    if (!name)
        name = "";
    if (!strcmp(name, "starttls"))
        snprintf(out, n, "starttls");
    else if (!strcmp(name, "auth") && ns && !strcmp(ns, XMPP_NS_SASL)) {
        char *t = xmpp_stanza_get_text(s);
        snprintf(out, n, "auth:%s:%d", xmpp_stanza_get_attribute(s, "mechanism"), t && *t ? 1 : 0);
        if (t)
            xmpp_free(g_ctx, t);
    } else if (!strcmp(name, "response") && ns && !strcmp(ns, XMPP_NS_SASL)) {
        char *t = xmpp_stanza_get_text(s);
        snprintf(out, n, "response:%d", t && *t ? 1 : 0);
        if (t)
            xmpp_free(g_ctx, t);
    } else if (!strcmp(name, "compress"))
        snprintf(out, n, "compress");
    else if (!strcmp(name, "iq") && id && !strcmp(id, "_xmpp_bind1"))
        snprintf(out, n, "bind:%s",
                 child_text_hex(xmpp_stanza_get_child_by_name(s, "bind"), "resource", a, sizeof(a)));
    else if (!strcmp(name, "iq") && id && !strcmp(id, "_xmpp_session1"))
        snprintf(out, n, "session");
    else if (!strcmp(name, "iq") && id && !strcmp(id, "_xmpp_auth1")) {
        xmpp_stanza_t *q = xmpp_stanza_get_child_by_name(s, "query");
        child_text_hex(q, "username", a, sizeof(a));
        child_text_hex(q, "resource", b, sizeof(b));
        child_text_hex(q, "password", c, sizeof(c));
        snprintf(out, n, "legacy:%s:%s:%d", a, b, strcmp(c, "-") != 0);
    } else if (ns && !strcmp(ns, XMPP_NS_SM) && !strcmp(name, "enable"))
        snprintf(out, n, "enable:%d", xmpp_stanza_get_attribute(s, "resume") ? 1 : 0);
    else if (ns && !strcmp(ns, XMPP_NS_SM) && !strcmp(name, "resume")) {
        hexs(xmpp_stanza_get_attribute(s, "previd"), a, sizeof(a));
        snprintf(out, n, "resume:%s:%s", a, xmpp_stanza_get_attribute(s, "h"));
    } else if (ns && !strcmp(ns, XMPP_NS_SM) && !strcmp(name, "a"))
        snprintf(out, n, "a:%s", xmpp_stanza_get_attribute(s, "h"));
    else if (ns && !strcmp(ns, XMPP_NS_SM) && !strcmp(name, "r"))
        snprintf(out, n, "r");
    else if (!strcmp(name, "handshake"))
        snprintf(out, n, "handshake");
    else if (!strcmp(name, "stream:error") || !strcmp(name, "error")) {
        xmpp_stanza_t *ch = xmpp_stanza_get_children(s);
        snprintf(out, n, "error:%s", ch && xmpp_stanza_get_name(ch) ? xmpp_stanza_get_name(ch) : "-");
    } else {
        hexs(id, a, sizeof(a));
        snprintf(out, n, "user:%s:%s", name, a);
    }
    xmpp_stanza_release(s);
}

/* ------------------------------------------------------------------ callbacks */

static void add_event(const char *fmt, ...)
{
    va_list ap;
    size_t l = strlen(g_events);
    if (l && l + 1 < sizeof(g_events)) {
        g_events[l++] = ',';
        g_events[l] = 0;
    }
    va_start(ap, fmt);
    vsnprintf(g_events + l, sizeof(g_events) - l, fmt, ap);
    va_end(ap);
}

static const char *se_name(xmpp_error_type_t t)
{
    static const char *names[] = {"bad-format", "bad-namespace-prefix", "conflict", "connection-timeout",
                                  "host-gone", "host-unknown", "improper-addressing",
                                  "internal-server-error", "invalid-from", "invalid-id",
                                  "invalid-namespace", "invalid-xml", "not-authorized",
                                  "policy-violation", "remote-connection-failed", "resource-constraint",
                                  "restricted-xml", "see-other-host", "system-shutdown",
                                  "undefined-condition", "unsupported-encoding",
                                  "unsupported-stanza-type", "unsupported-version",
                                  "xml-not-well-formed"};
    return (unsigned)t < sizeof(names) / sizeof(names[0]) ? names[t] : "?";
}

static void conn_handler(xmpp_conn_t *conn, xmpp_conn_event_t ev, int error, xmpp_stream_error_t *se,
                         void *ud)
{
    (void)conn;
    (void)ud;
    if (ev == XMPP_CONN_CONNECT) {
        add_event("CONNECT");
        g_connects_this_attempt++;
        if (g_send_on_connect) {
            /* what applications do first: announce themselves from the connection handler */
            xmpp_stanza_t *pres = xmpp_presence_new(xmpp_conn_get_context(conn));
            xmpp_stanza_set_id(pres, "oc");
            xmpp_send(conn, pres);
            xmpp_stanza_release(pres);
        }
    } else if (ev == XMPP_CONN_RAW_CONNECT) {
        add_event("RAW");
        g_connects_this_attempt++;
    } else if (ev == XMPP_CONN_DISCONNECT) {
        char t[2100];
        hexs(se && se->text ? se->text : NULL, t, sizeof(t));
        add_event("DISCONNECT:%d:%s:%s", error, se ? se_name(se->type) : "-", t);
        g_disconnects_this_attempt++;
        if (g_disconnects_this_attempt > 1)
            fprintf(g_out, "ORACLE-FAIL double-disconnect\n");
        if (g_connects_this_attempt > 1)
            fprintf(g_out, "ORACLE-FAIL double-connect\n");
    } else
        add_event("FAIL");
}

static int user_stanza_handler(xmpp_conn_t *conn, xmpp_stanza_t *st, void *ud)
{
    char a[600];
    (void)ud;
    hexs(xmpp_stanza_get_id(st), a, sizeof(a));
    add_event("uh:%s:%s", xmpp_stanza_get_name(st) ? xmpp_stanza_get_name(st) : "-", a);
    if (!xmpp_conn_is_connected(conn))
        fprintf(g_out, "ORACLE-FAIL user-handler-before-connected\n");
    return 1;
}

static int user_timed_handler(xmpp_conn_t *conn, void *ud)
{
    (void)ud;
    add_event("ut");
    if (!xmpp_conn_is_connected(conn))
        fprintf(g_out, "ORACLE-FAIL user-timed-handler-before-connected\n");
    return 1;
}

static void sm_cb(xmpp_conn_t *conn, void *ctx, const unsigned char *state, size_t len)
{
    (void)conn;
    (void)ctx;
    (void)state;
    (void)len;
}

/* ------------------------------------------------------------------ engine */

typedef struct {
    char *text;
    size_t len;
} snap_t;

static void finish(const char *res, snap_t *snap, int nsnap)
{
    size_t pos = 0;
    int i, first = 1, st_i, st_c, st_d;
    fprintf(g_out, "= %s | tx ", res);
    for (i = 0; i < nsnap && pos + snap[i].len <= fnet.wire_n; i++) {
        char item[5000];
        if (memcmp(fnet.wire + pos, snap[i].text, snap[i].len) != 0)
            break;
        classify(snap[i].text, snap[i].len, item, sizeof(item));
        fprintf(g_out, "%s%s/%c", first ? "" : ",", item,
                snap[i].len && fnet.wire_sec[pos] ? 's' : (snap[i].len ? 'p' : (fnet.tls_active ? 's' : 'p')));
        first = 0;
        pos += snap[i].len;
    }
    if (first)
        fputc('-', g_out);
    if (pos != fnet.wire_n)
        fprintf(g_out, ",PARTIAL:%zu", fnet.wire_n - pos);
    fnet.wire_n = 0;
    fprintf(g_out, " | ev %s", g_events[0] ? g_events : "-");
    g_events[0] = 0;
    if (g_conn && !g_released) {
        st_i = xmpp_conn_is_connecting(g_conn) ? 1 : 0;
        st_c = xmpp_conn_is_connected(g_conn) ? 1 : 0;
        st_d = xmpp_conn_is_disconnected(g_conn) ? 1 : 0;
        fprintf(g_out, " | st %s neg %d sec %d q %d",
                st_i + st_c + st_d != 1 ? "BAD" : (st_c ? "c" : st_i ? "i" : "d"),
                g_conn->stream_negotiation_completed, xmpp_conn_is_secured(g_conn) ? 1 : 0,
                g_conn->send_queue_len);
        if (g_conn->sm_state) {
            xmpp_sm_state_t *sm = g_conn->sm_state;
            xmpp_send_queue_t *e;
            int firstq = 1;
            fprintf(g_out, " sm %d%d%d%d%d s%u h%u q", sm->sm_support, sm->sm_enabled, sm->can_resume,
                    sm->resume, sm->r_sent, sm->sm_sent_nr, sm->sm_handled_nr);
            for (e = sm->sm_queue.head; e; e = e->next) {
                fprintf(g_out, "%s%u", firstq ? "" : ",", e->sm_h);
                firstq = 0;
            }
            if (firstq)
                fputc('-', g_out);
        } else
            fprintf(g_out, " sm none");
        /* the id of the current stream (what the component handshake is computed from) */
        {
            char sid[300];
            hexs(g_conn->stream_id, sid, sizeof(sid));
            fprintf(g_out, " sid %s", sid);
        }
        /* what the application is told about its own waiting elements */
        fprintf(g_out, " ql %d", xmpp_conn_send_queue_len(g_conn));
        fputc('\n', g_out);
    } else
        fprintf(g_out, " | st - neg 0 sec 0 q 0\n");
}

static int take_snapshot(snap_t **out)
{
    xmpp_send_queue_t *e;
    int n = 0, i = 0;
    if (!g_conn || g_released) {
        *out = NULL;
        return 0;
    }
    for (e = g_conn->send_queue_head; e; e = e->next)
        n++;
    *out = calloc((size_t)n + 1, sizeof(snap_t));
    for (e = g_conn->send_queue_head; e; e = e->next, i++) {
        (*out)[i].len = e->len - e->written;
        (*out)[i].text = malloc(e->len + 1);
        memcpy((*out)[i].text, e->data + e->written, e->len - e->written);
    }
    return n;
}

static void free_snapshot(snap_t *s, int n)
{
    int i;
    for (i = 0; i < n; i++)
        free(s[i].text);
    free(s);
}

static void drop_conn(void)
{
    if (g_conn && !g_released)
        xmpp_conn_release(g_conn);
    g_conn = NULL;
    g_released = 0;
}

int eng_conn(FILE *in, FILE *out)
{
    static unsigned char zeros[1] = {0};
    long base_live = -1;
    char *line;
    g_out = out;
    g_ctx = xmpp_ctx_new(&hmem, &hlog_quiet);
    hselect_hook = fnet_select;
    hx_rand_script(zeros, 0);
    fnet_reset();
    while ((line = hreadline(in))) {
        char *tok[8];
        int n = hsplit(line, tok, 8);
        snap_t *snap = NULL;
        int nsnap = 0;
        char res[64];
        if (n == 1 && !strcmp(tok[0], "case")) {
            drop_conn();
            fnet_reset();
            if (base_live < 0)
                base_live = hmem_live;
            else if (hmem_live != base_live) {
                fprintf(out, "ORACLE-FAIL leak %ld\n", hmem_live - base_live);
                base_live = hmem_live; /* report each leak once */
            }
            hclock_ms = 1000000;
            g_events[0] = 0;
            fprintf(out, "= case\n");
            continue;
        }
        snprintf(res, sizeof(res), "ok");
        if (n == 6 && !strcmp(tok[0], "new")) {
            hbuf j, p;
            char *s;
            drop_conn();
            g_althost[0] = 0;
            g_send_on_connect = 0;
            if (hparse(tok[1], &j) < 0 || hparse(tok[2], &p) < 0) {
                fprintf(out, "= bad-op\n");
                continue;
            }
            g_intercept = 1;
            g_conn = xmpp_conn_new(g_ctx);
            g_intercept = 0;
            if ((s = hcstr(&j))) {
                xmpp_conn_set_jid(g_conn, s);
                free(s);
            }
            if ((s = hcstr(&p))) {
                xmpp_conn_set_pass(g_conn, s);
                free(s);
            }
            hbuf_free(&j);
            hbuf_free(&p);
            snprintf(res, sizeof(res), "rc %d", xmpp_conn_set_flags(g_conn, atol(tok[3])));
            g_type = tok[4][0];
            /* a client certificate is configured through the public call (EXTERNAL becomes eligible):
             * 1 = PEM certificate + key, 2 = PKCS#12 file (certificate argument only),
             * 3 = PKCS#12 in the deprecated position (key argument only) */
            if (tok[5][0] == '1')
                xmpp_conn_set_client_cert(g_conn, "cert.pem", "key.pem");
            else if (tok[5][0] == '2')
                xmpp_conn_set_client_cert(g_conn, "client.p12", NULL);
            else if (tok[5][0] == '3')
                xmpp_conn_set_client_cert(g_conn, NULL, "client.p12");
        } else if (!g_conn || g_released) {
            fprintf(out, "= bad-op\n");
            continue;
        } else if ((n == 1 || n == 2) && !strcmp(tok[0], "connect")) {
            int rc;
            /* `connect <kind>`: another API entry point than the one the object was made for */
            int kind = n == 2 ? tok[1][0] : g_type;
            if (kind == 'k')
                rc = xmpp_connect_component(g_conn, "comp.example", 0, conn_handler, NULL);
            else if (kind == 'r')
                rc = xmpp_connect_raw(g_conn, g_althost[0] ? g_althost : NULL, 0, conn_handler, NULL);
            else
                rc = xmpp_connect_client(g_conn, g_althost[0] ? g_althost : NULL, 0, conn_handler, NULL);
            if (rc == 0) {
                g_disconnects_this_attempt = 0;
                g_connects_this_attempt = 0;
                g_attempt_open = 1;
            }
            snprintf(res, sizeof(res), "rc %d", rc);
        } else if ((n == 1 && (!strcmp(tok[0], "run") || !strcmp(tok[0], "eof") || !strcmp(tok[0], "ioerr"))) ||
                   (n == 2 && !strcmp(tok[0], "rx"))) {
            if (!strcmp(tok[0], "rx")) {
                hbuf b;
                if (hparse(tok[1], &b) < 0 || !b.p) {
                    fprintf(out, "= bad-op\n");
                    continue;
                }
                free(fnet.rx);
                fnet.rx = b.p;
                fnet.rx_n = b.n;
                fnet.rx_kind = b.n ? 1 : 0;
            } else if (!strcmp(tok[0], "eof"))
                fnet.rx_kind = 2;
            else if (!strcmp(tok[0], "ioerr"))
                fnet.rx_kind = 3;
            nsnap = take_snapshot(&snap);
            xmpp_run_once(g_ctx, 0);
            fnet.rx_kind = 0; /* an unread event does not survive the op */
            snprintf(res, sizeof(res), "ran");
        } else if (n == 2 && !strcmp(tok[0], "tcpfail")) {
            fnet.connect_fail = atoi(tok[1]);
        } else if (n == 2 && !strcmp(tok[0], "tcperr")) {
            fnet.connect_error = atoi(tok[1]);
        } else if (n == 2 && !strcmp(tok[0], "tls")) {
            fnet.tls_start_fail = !strcmp(tok[1], "fail");
            fnet.tls_new_fail = !strcmp(tok[1], "nonew");
        } else if (n == 2 && !strcmp(tok[0], "wr")) {
            fnet_set_schedule(tok[1]);
        } else if (n == 2 && !strcmp(tok[0], "tick")) {
            hclock_ms += strtoull(tok[1], NULL, 10);
        } else if (n == 2 && !strcmp(tok[0], "usend")) {
            xmpp_stanza_t *m = xmpp_message_new(g_ctx, NULL, NULL, tok[1]);
            xmpp_send(g_conn, m);
            xmpp_stanza_release(m);
        } else if (n == 2 && (!strcmp(tok[0], "uraw") || !strcmp(tok[0], "urawstr"))) {
            hbuf b;
            if (hparse(tok[1], &b) < 0 || !b.p) {
                fprintf(out, "= bad-op\n");
                continue;
            }
            if (!strcmp(tok[0], "uraw"))
                xmpp_send_raw(g_conn, (char *)b.p, b.n);
            else {
                char *s = hcstr(&b);
                xmpp_send_raw_string(g_conn, "%s", s);
                free(s);
            }
            hbuf_free(&b);
        } else if (n == 2 && !strcmp(tok[0], "onconnect")) {
            g_send_on_connect = atoi(tok[1]) != 0;
        } else if (n == 2 && !strcmp(tok[0], "althost")) {
            /* the application names the host to connect to (altdomain); the XMPP domain stays the
             * JID's */
            hbuf b;
            if (hparse(tok[1], &b) < 0 || b.n >= sizeof(g_althost)) {
                fprintf(out, "= bad-op\n");
                continue;
            }
            memcpy(g_althost, b.p ? (char *)b.p : "", b.n);
            g_althost[b.n] = 0;
            hbuf_free(&b);
        } else if (n == 1 && !strcmp(tok[0], "udisc")) {
            xmpp_disconnect(g_conn);
        } else if (n == 1 && !strcmp(tok[0], "utls")) {
            /* the public xmpp_conn_tls_start() (meant for raw connections); the application only
             * calls it on a live connection without a TLS session */
            if (g_conn->state != XMPP_STATE_CONNECTED || g_conn->tls)
                snprintf(res, sizeof(res), "rc skipped");
            else
                snprintf(res, sizeof(res), "rc %d", xmpp_conn_tls_start(g_conn));
        } else if (n == 2 && !strcmp(tok[0], "setflags")) {
            int rc = xmpp_conn_set_flags(g_conn, atol(tok[1]));
            snprintf(res, sizeof(res), "rc %d flags %ld", rc, xmpp_conn_get_flags(g_conn));
        } else if (n == 1 && !strcmp(tok[0], "release")) {
            int rc = xmpp_conn_release(g_conn);
            g_released = 1;
            snprintf(res, sizeof(res), "rc %d", rc);
        } else if (n == 1 && !strcmp(tok[0], "uhandlers")) {
            xmpp_handler_add(g_conn, user_stanza_handler, NULL, NULL, NULL, NULL);
            xmpp_id_handler_add(g_conn, user_stanza_handler, "uid1", NULL);
            xmpp_timed_handler_add(g_conn, user_timed_handler, 1000, NULL);
        } else if (n == 1 && !strcmp(tok[0], "smcb")) {
            xmpp_conn_set_sm_callback(g_conn, sm_cb, NULL);
        } else {
            fprintf(out, "= bad-op\n");
            continue;
        }
        finish(res, snap, nsnap);
        free_snapshot(snap, nsnap);
    }
    drop_conn();
    if (base_live >= 0 && hmem_live != base_live)
        fprintf(out, "ORACLE-FAIL leak %ld\n", hmem_live - base_live);
    xmpp_ctx_free(g_ctx);
    fnet_reset();
    return 0;
}
