/* Correspondence harness entry point: `hdrv <engine>` reads ops on stdin, prints one
   canonical output line per op (same protocol as the Lean driver `drv <engine>`). */
#include "hcommon.h"

static const struct {
    const char *name;
    engine_fn fn;
} engines[] = {
    {"b64", eng_b64},
    {"jid", eng_jid},
    {"hash", eng_hash},
    {"dns", eng_dns},
};

int main(int argc, char **argv)
{
    size_t i;
    if (argc < 2) {
        fprintf(stderr, "usage: hdrv <engine>\n");
        return 2;
    }
    for (i = 0; i < sizeof(engines) / sizeof(engines[0]); i++)
        if (strcmp(argv[1], engines[i].name) == 0)
            return engines[i].fn(stdin, stdout);
    fprintf(stderr, "unknown engine %s\n", argv[1]);
    return 2;
}
