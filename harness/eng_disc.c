/* HARNESS wraps: res_query,getaddrinfo,freeaddrinfo,socket,fcntl,connect,getpeername,recv,send,setsockopt,getsockopt,close */
/* engine disc (C14): server discovery.  REAL sock.c / resolver.c / event.c / conn.c; libc
   networking is scripted through link-time wrappers (the HARNESS wraps directive above).

   Scenario ops (each answers "= ok"):
     srv H|fail            what res_query() answers for the SRV question: a DNS response (hex) or
                           failure (-1).  Default when never given: fail.
     addrs Hhost a,…|none  what getaddrinfo(host) answers, in order.  a = 4.n (IPv4 10.0.n/256.n%256)
                           or 6.n (IPv6 fd00::n), 0 <= n < 65536.  Unscripted host / none: EAI_NONAME.
     ep a:port beh         behaviour of one endpoint:
                             refuse  connect() fails synchronously (ECONNREFUSED)
                             late    connect() = EINPROGRESS, socket becomes writable, getpeername()
                                     fails with ENOTCONN and recv() reports ECONNREFUSED
                             hang    connect() = EINPROGRESS, never writable
                             accept  connect() = EINPROGRESS, writable, getpeername() succeeds
                             accept0 connect() returns 0 at once, then as accept
                           Unscripted endpoints refuse.  The script is consulted when the library
                           asks (connect / select / getpeername / recv), so a later `ep` op changes
                           how a pending attempt ends.
   Actions:
     connect kind Hjid Halthost|- altport flags
                           kind = raw | client | component.  xmpp_conn_set_flags(flags), then
                           xmpp_connect_raw / xmpp_connect_client / xmpp_connect_component(althost,
                           altport).  Only accepted while the connection is DISCONNECTED (else "= bad-op").
                           -> = rc N q Q tr TRACE st STATE
                           Q = number of res_query() calls made by this op
     run ms                hclock_ms += ms; xmpp_run_once(ctx, 0)   (exactly one loop iteration)
                           -> = tr TRACE ev EVENTS st STATE
     end                   release connection and context, check for leaked descriptors / addrinfo
                           lists / memory -> = end
   TRACE  = "-" or comma list, in call order, of  g:Hhost:port (getaddrinfo(host, "port")) and
            t:a:port (connect(2) to address a, port)
   EVENTS = "-" or comma list of RAW_CONNECT | CONNECT | DISCONNECT:timeout | DISCONNECT:<n> | FAIL
   STATE  = disconnected | connecting | connected
   ORACLE-FAIL lines: srv-name (wrong SRV question), gai-hints, double-close, fd-leak, ai-leak,
   mem-leak, blocking-connect. */
#include "hcommon.h"

#include <arpa/inet.h>
#include <errno.h>
#include <fcntl.h>
#include <netdb.h>
#include <netinet/in.h>
#include <stdarg.h>
#include <sys/select.h>
#include <sys/socket.h>
#include <unistd.h>

static int disc_active = 0;
static FILE *disc_out;

/* ---------------- script ---------------- */
typedef struct {
    int fam; /* 4 | 6 */
    unsigned n;
} d_addr;

enum { B_REFUSE, B_LATE, B_HANG, B_ACCEPT, B_ACCEPT0 };

#define MAXH 64
#define MAXA 8
#define MAXE 256
static struct {
    char *name;
    int n;
    d_addr a[MAXA];
} d_hosts[MAXH];
static int d_nhosts;
static struct {
    d_addr a;
    unsigned port;
    int beh;
} d_eps[MAXE];
static int d_neps;
static unsigned char *d_srv;
static size_t d_srv_len;
static int d_srv_set; /* 0 = fail */
static char *d_domain; /* expected SRV question: _xmpp-client._tcp.<domain> */
static int d_queries;

/* fake descriptors */
#define FD_BASE 100
#define FD_N 64
static struct {
    int open;
    int fam;
    int flags;
    int has_ep;
    d_addr a;
    unsigned port;
} d_fd[FD_N];
static long d_ai_live;

/* trace / events */
static char d_trace[16384];
static size_t d_trace_n;
static char d_events[2048];
static size_t d_events_n;

static void tr_add(const char *fmt, ...)
{
    va_list ap;
    int k;
    if (d_trace_n + 600 > sizeof(d_trace))
        return;
    if (d_trace_n)
        d_trace[d_trace_n++] = ',';
    va_start(ap, fmt);
    k = vsnprintf(d_trace + d_trace_n, sizeof(d_trace) - d_trace_n, fmt, ap);
    va_end(ap);
    if (k > 0)
        d_trace_n += (size_t)k;
}

static void ev_add(const char *s)
{
    if (d_events_n + strlen(s) + 2 > sizeof(d_events))
        return;
    if (d_events_n)
        d_events[d_events_n++] = ',';
    strcpy(d_events + d_events_n, s);
    d_events_n += strlen(s);
}

static void script_reset(void)
{
    int i;
    for (i = 0; i < d_nhosts; i++)
        free(d_hosts[i].name);
    d_nhosts = 0;
    d_neps = 0;
    free(d_srv);
    d_srv = NULL;
    d_srv_len = 0;
    d_srv_set = 0;
    free(d_domain);
    d_domain = NULL;
    memset(d_fd, 0, sizeof(d_fd));
    d_trace_n = d_events_n = 0;
    d_queries = 0;
}

static int is_fake(int fd)
{
    return disc_active && fd >= FD_BASE && fd < FD_BASE + FD_N;
}

static int ep_beh(const d_addr *a, unsigned port)
{
    int i;
    for (i = d_neps - 1; i >= 0; i--)
        if (d_eps[i].a.fam == a->fam && d_eps[i].a.n == a->n && d_eps[i].port == port)
            return d_eps[i].beh;
    return B_REFUSE;
}

/* behaviour of the endpoint a fake descriptor was connected to, looked up in the script as it
   is NOW (an `ep` op may change an endpoint while an attempt is pending) */
static int fd_beh(int fd)
{
    return ep_beh(&d_fd[fd - FD_BASE].a, d_fd[fd - FD_BASE].port);
}

static void put_addr(char *buf, size_t n, const d_addr *a)
{
    snprintf(buf, n, "%d.%u", a->fam, a->n);
}

static int sa_decode(const struct sockaddr *sa, d_addr *a, unsigned *port)
{
    if (sa->sa_family == AF_INET) {
        const struct sockaddr_in *s4 = (const struct sockaddr_in *)sa;
        const unsigned char *b = (const unsigned char *)&s4->sin_addr;
        a->fam = 4;
        a->n = (unsigned)b[2] * 256 + b[3];
        *port = ntohs(s4->sin_port);
        return 0;
    }
    if (sa->sa_family == AF_INET6) {
        const struct sockaddr_in6 *s6 = (const struct sockaddr_in6 *)sa;
        a->fam = 6;
        a->n = (unsigned)s6->sin6_addr.s6_addr[14] * 256 + s6->sin6_addr.s6_addr[15];
        *port = ntohs(s6->sin6_port);
        return 0;
    }
    return -1;
}

/* ---------------- libc wrappers ---------------- */
int __real_res_query(const char *, int, int, unsigned char *, int);
int __wrap_res_query(const char *name, int class, int type, unsigned char *ans, int anslen)
{
    if (!disc_active)
        return __real_res_query(name, class, type, ans, anslen);
    d_queries++;
    {
        char want[2300];
        snprintf(want, sizeof(want), "_xmpp-client._tcp.%s", d_domain ? d_domain : "");
        if (strcmp(want, name) != 0 || class != 1 || type != 33)
            fprintf(disc_out, "ORACLE-FAIL srv-name %s class %d type %d\n", name, class, type);
    }
    if (!d_srv_set)
        return -1;
    if ((size_t)anslen < d_srv_len) {
        memcpy(ans, d_srv, (size_t)anslen);
        return (int)d_srv_len; /* like libresolv: the full length, answer truncated */
    }
    memcpy(ans, d_srv, d_srv_len);
    return (int)d_srv_len;
}

int __real_getaddrinfo(const char *, const char *, const struct addrinfo *, struct addrinfo **);
int __wrap_getaddrinfo(const char *node, const char *service, const struct addrinfo *hints,
                       struct addrinfo **res)
{
    int i, k;
    unsigned long port;
    struct addrinfo *head = NULL, **tail = &head;
    if (!disc_active)
        return __real_getaddrinfo(node, service, hints, res);
    port = strtoul(service ? service : "0", NULL, 10);
    {
        size_t nl = strlen(node);
        char *hexs = malloc(2 * nl + 2);
        size_t j;
        static const char d[] = "0123456789abcdef";
        for (j = 0; j < nl; j++) {
            hexs[2 * j] = d[((unsigned char)node[j]) >> 4];
            hexs[2 * j + 1] = d[((unsigned char)node[j]) & 15];
        }
        hexs[2 * nl] = 0;
        tr_add("g:%s:%lu", nl ? hexs : ".", port);
        free(hexs);
    }
    if (!hints || hints->ai_socktype != SOCK_STREAM || hints->ai_protocol != IPPROTO_TCP ||
        hints->ai_family != AF_UNSPEC)
        fprintf(disc_out, "ORACLE-FAIL gai-hints\n");
    for (i = 0; i < d_nhosts; i++)
        if (strcmp(d_hosts[i].name, node) == 0)
            break;
    if (i == d_nhosts || d_hosts[i].n == 0) {
        *res = NULL;
        return EAI_NONAME;
    }
    for (k = 0; k < d_hosts[i].n; k++) {
        struct addrinfo *ai = calloc(1, sizeof(*ai));
        d_addr *a = &d_hosts[i].a[k];
        ai->ai_socktype = SOCK_STREAM;
        ai->ai_protocol = IPPROTO_TCP;
        if (a->fam == 4) {
            struct sockaddr_in *s4 = calloc(1, sizeof(*s4));
            unsigned char *b = (unsigned char *)&s4->sin_addr;
            s4->sin_family = AF_INET;
            s4->sin_port = htons((unsigned short)port);
            b[0] = 10;
            b[1] = 0;
            b[2] = (unsigned char)(a->n >> 8);
            b[3] = (unsigned char)(a->n & 255);
            ai->ai_family = AF_INET;
            ai->ai_addrlen = sizeof(*s4);
            ai->ai_addr = (struct sockaddr *)s4;
        } else {
            struct sockaddr_in6 *s6 = calloc(1, sizeof(*s6));
            s6->sin6_family = AF_INET6;
            s6->sin6_port = htons((unsigned short)port);
            s6->sin6_addr.s6_addr[0] = 0xfd;
            s6->sin6_addr.s6_addr[14] = (unsigned char)(a->n >> 8);
            s6->sin6_addr.s6_addr[15] = (unsigned char)(a->n & 255);
            ai->ai_family = AF_INET6;
            ai->ai_addrlen = sizeof(*s6);
            ai->ai_addr = (struct sockaddr *)s6;
        }
        *tail = ai;
        tail = &ai->ai_next;
    }
    d_ai_live++;
    *res = head;
    return 0;
}

void __real_freeaddrinfo(struct addrinfo *);
void __wrap_freeaddrinfo(struct addrinfo *ai)
{
    if (!disc_active) {
        __real_freeaddrinfo(ai);
        return;
    }
    if (ai)
        d_ai_live--;
    while (ai) {
        struct addrinfo *n = ai->ai_next;
        free(ai->ai_addr);
        free(ai);
        ai = n;
    }
}

int __real_socket(int, int, int);
int __wrap_socket(int domain, int type, int protocol)
{
    int i;
    if (!disc_active)
        return __real_socket(domain, type, protocol);
    for (i = 0; i < FD_N; i++)
        if (!d_fd[i].open) {
            memset(&d_fd[i], 0, sizeof(d_fd[i]));
            d_fd[i].open = 1;
            d_fd[i].fam = domain;
            return FD_BASE + i;
        }
    errno = EMFILE;
    return -1;
}

int __real_fcntl(int, int, ...);
int __wrap_fcntl(int fd, int cmd, ...)
{
    va_list ap;
    long arg;
    va_start(ap, cmd);
    arg = va_arg(ap, long);
    va_end(ap);
    if (!is_fake(fd))
        return __real_fcntl(fd, cmd, arg);
    if (!d_fd[fd - FD_BASE].open) {
        errno = EBADF;
        return -1;
    }
    if (cmd == F_GETFL)
        return d_fd[fd - FD_BASE].flags;
    if (cmd == F_SETFL) {
        d_fd[fd - FD_BASE].flags = (int)arg;
        return 0;
    }
    return 0;
}

int __real_connect(int, const struct sockaddr *, socklen_t);
int __wrap_connect(int fd, const struct sockaddr *sa, socklen_t len)
{
    d_addr a;
    unsigned port;
    char abuf[32];
    int beh;
    if (!is_fake(fd))
        return __real_connect(fd, sa, len);
    if (!d_fd[fd - FD_BASE].open) {
        errno = EBADF;
        return -1;
    }
    if (sa_decode(sa, &a, &port) < 0) {
        errno = EAFNOSUPPORT;
        return -1;
    }
    put_addr(abuf, sizeof(abuf), &a);
    tr_add("t:%s:%u", abuf, port);
    if (!(d_fd[fd - FD_BASE].flags & O_NONBLOCK))
        fprintf(disc_out, "ORACLE-FAIL blocking-connect %s:%u\n", abuf, port);
    beh = ep_beh(&a, port);
    d_fd[fd - FD_BASE].has_ep = 1;
    d_fd[fd - FD_BASE].a = a;
    d_fd[fd - FD_BASE].port = port;
    if (beh == B_REFUSE) {
        errno = ECONNREFUSED;
        return -1;
    }
    if (beh == B_ACCEPT0)
        return 0;
    errno = EINPROGRESS;
    return -1;
}

int __real_getpeername(int, struct sockaddr *, socklen_t *);
int __wrap_getpeername(int fd, struct sockaddr *sa, socklen_t *len)
{
    if (!is_fake(fd))
        return __real_getpeername(fd, sa, len);
    if (d_fd[fd - FD_BASE].open && d_fd[fd - FD_BASE].has_ep &&
        (fd_beh(fd) == B_ACCEPT || fd_beh(fd) == B_ACCEPT0)) {
        sa->sa_family = (sa_family_t)d_fd[fd - FD_BASE].fam;
        return 0;
    }
    errno = d_fd[fd - FD_BASE].open ? ENOTCONN : EBADF;
    return -1;
}

ssize_t __real_recv(int, void *, size_t, int);
ssize_t __wrap_recv(int fd, void *buf, size_t n, int flags)
{
    if (!is_fake(fd))
        return __real_recv(fd, buf, n, flags);
    if (!d_fd[fd - FD_BASE].open)
        errno = EBADF;
    else if (d_fd[fd - FD_BASE].has_ep && fd_beh(fd) == B_LATE)
        errno = ECONNREFUSED;
    else if (d_fd[fd - FD_BASE].has_ep && (fd_beh(fd) == B_ACCEPT || fd_beh(fd) == B_ACCEPT0))
        errno = EAGAIN; /* the peer stays silent */
    else
        errno = ENOTCONN;
    return -1;
}

ssize_t __real_send(int, const void *, size_t, int);
ssize_t __wrap_send(int fd, const void *buf, size_t n, int flags)
{
    if (!is_fake(fd))
        return __real_send(fd, buf, n, flags);
    if (!d_fd[fd - FD_BASE].open) {
        errno = EBADF;
        return -1;
    }
    return (ssize_t)n; /* swallowed */
}

int __real_setsockopt(int, int, int, const void *, socklen_t);
int __wrap_setsockopt(int fd, int level, int name, const void *val, socklen_t len)
{
    if (!is_fake(fd))
        return __real_setsockopt(fd, level, name, val, len);
    return 0;
}

int __real_getsockopt(int, int, int, void *, socklen_t *);
int __wrap_getsockopt(int fd, int level, int name, void *val, socklen_t *len)
{
    if (!is_fake(fd))
        return __real_getsockopt(fd, level, name, val, len);
    if (level == SOL_SOCKET && name == SO_ERROR && val && len && *len >= sizeof(int)) {
        int e = 0;
        if (d_fd[fd - FD_BASE].has_ep && fd_beh(fd) == B_LATE)
            e = ECONNREFUSED;
        memcpy(val, &e, sizeof(e));
        *len = sizeof(e);
    }
    return 0;
}

int __real_close(int);
int __wrap_close(int fd)
{
    if (!is_fake(fd)) {
        if (disc_active && fd < 0) { /* sock_close(INVALID_SOCKET): harmless EBADF */
            errno = EBADF;
            return -1;
        }
        return __real_close(fd);
    }
    if (!d_fd[fd - FD_BASE].open) {
        fprintf(disc_out, "ORACLE-FAIL double-close %d\n", fd - FD_BASE);
        errno = EBADF;
        return -1;
    }
    d_fd[fd - FD_BASE].open = 0;
    return 0;
}

static int disc_select(int nfds, fd_set *r, fd_set *w, fd_set *e, struct timeval *tv)
{
    int fd, c = 0;
    (void)tv;
    if (e)
        FD_ZERO(e);
    for (fd = 0; fd < nfds; fd++) {
        if (r && FD_ISSET(fd, r))
            FD_CLR(fd, r); /* nothing is ever readable */
        if (w && FD_ISSET(fd, w)) {
            int ready = 0;
            if (is_fake(fd) && d_fd[fd - FD_BASE].open && d_fd[fd - FD_BASE].has_ep) {
                int b = fd_beh(fd);
                ready = (b == B_LATE || b == B_ACCEPT || b == B_ACCEPT0);
            }
            if (ready)
                c++;
            else
                FD_CLR(fd, w);
        }
    }
    return c;
}

/* ---------------- engine ---------------- */
static void conn_handler(xmpp_conn_t *conn, xmpp_conn_event_t ev, int error,
                         xmpp_stream_error_t *serr, void *ud)
{
    char b[64];
    (void)conn;
    (void)serr;
    (void)ud;
    switch (ev) {
    case XMPP_CONN_CONNECT:
        ev_add("CONNECT");
        break;
    case XMPP_CONN_RAW_CONNECT:
        ev_add("RAW_CONNECT");
        break;
    case XMPP_CONN_DISCONNECT:
        if (error == ETIMEDOUT)
            ev_add("DISCONNECT:timeout");
        else {
            snprintf(b, sizeof(b), "DISCONNECT:%d", error);
            ev_add(b);
        }
        break;
    default:
        ev_add("FAIL");
    }
}

static const char *st_name(xmpp_conn_t *c)
{
    if (!c)
        return "disconnected";
    switch (c->state) {
    case XMPP_STATE_CONNECTING:
        return "connecting";
    case XMPP_STATE_CONNECTED:
        return "connected";
    default:
        return "disconnected";
    }
}

static int parse_addr(const char *s, d_addr *a)
{
    char *end;
    unsigned long n;
    if ((s[0] != '4' && s[0] != '6') || s[1] != '.')
        return -1;
    n = strtoul(s + 2, &end, 10);
    if (end == s + 2 || *end || n > 65535)
        return -1;
    a->fam = s[0] - '0';
    a->n = (unsigned)n;
    return 0;
}

static xmpp_ctx_t *e_ctx;
static xmpp_conn_t *e_conn;

static void teardown(int report)
{
    int i, leaked = 0;
    long base;
    if (e_conn) {
        xmpp_conn_release(e_conn);
        e_conn = NULL;
    }
    if (e_ctx) {
        xmpp_ctx_free(e_ctx);
        e_ctx = NULL;
    }
    for (i = 0; i < FD_N; i++)
        if (d_fd[i].open)
            leaked++;
    base = hmem_live;
    if (report) {
        if (leaked)
            fprintf(disc_out, "ORACLE-FAIL fd-leak %d\n", leaked);
        if (d_ai_live)
            fprintf(disc_out, "ORACLE-FAIL ai-leak %ld\n", d_ai_live);
        if (base)
            fprintf(disc_out, "ORACLE-FAIL mem-leak %ld\n", base);
    }
    d_ai_live = 0;
}

static const char *or_dash(const char *s, size_t n)
{
    return n ? s : "-";
}

int eng_disc(FILE *in, FILE *out)
{
    char *line;
    long mem0 = hmem_live;
    (void)mem0;
    disc_out = out;
    disc_active = 1;
    hselect_hook = disc_select;
    script_reset();
    hclock_ms = 1000000;
    while ((line = hreadline(in))) {
        char *tok[8];
        int n = hsplit(line, tok, 8);
        if (n == 1 && !strcmp(tok[0], "case")) {
            teardown(0);
            script_reset();
            hclock_ms = 1000000;
            fprintf(out, "= case\n");
            continue;
        }
        if (n == 2 && !strcmp(tok[0], "srv")) {
            hbuf b;
            free(d_srv);
            d_srv = NULL;
            d_srv_len = 0;
            if (!strcmp(tok[1], "fail")) {
                d_srv_set = 0;
                fprintf(out, "= ok\n");
                continue;
            }
            if (hparse(tok[1], &b) < 0 || !b.p) {
                fprintf(out, "= bad-op\n");
                continue;
            }
            d_srv = b.p;
            d_srv_len = b.n;
            d_srv_set = 1;
            fprintf(out, "= ok\n");
            continue;
        }
        if (n == 3 && !strcmp(tok[0], "addrs")) {
            hbuf h;
            int i, bad = 0;
            char *p;
            if (hparse(tok[1], &h) < 0 || !h.p || d_nhosts >= MAXH) {
                fprintf(out, "= bad-op\n");
                continue;
            }
            {
                char *name = hcstr(&h);
                hbuf_free(&h);
                for (i = 0; i < d_nhosts; i++)
                    if (!strcmp(d_hosts[i].name, name))
                        break;
                if (i == d_nhosts) {
                    d_hosts[d_nhosts++].name = name;
                } else
                    free(name);
            }
            d_hosts[i].n = 0;
            if (strcmp(tok[2], "none") != 0) {
                p = tok[2];
                while (*p && !bad) {
                    char *q = strchr(p, ',');
                    if (q)
                        *q = 0;
                    if (d_hosts[i].n >= MAXA || parse_addr(p, &d_hosts[i].a[d_hosts[i].n]) < 0)
                        bad = 1;
                    else
                        d_hosts[i].n++;
                    if (!q)
                        break;
                    p = q + 1;
                }
            }
            fprintf(out, bad ? "= bad-op\n" : "= ok\n");
            continue;
        }
        if (n == 3 && !strcmp(tok[0], "ep")) {
            char *c = strchr(tok[1], ':');
            d_addr a;
            int beh = !strcmp(tok[2], "refuse")    ? B_REFUSE
                      : !strcmp(tok[2], "late")    ? B_LATE
                      : !strcmp(tok[2], "hang")    ? B_HANG
                      : !strcmp(tok[2], "accept")  ? B_ACCEPT
                      : !strcmp(tok[2], "accept0") ? B_ACCEPT0
                                                   : -1;
            if (!c || beh < 0 || d_neps >= MAXE) {
                fprintf(out, "= bad-op\n");
                continue;
            }
            *c = 0;
            if (parse_addr(tok[1], &a) < 0) {
                fprintf(out, "= bad-op\n");
                continue;
            }
            d_eps[d_neps].a = a;
            d_eps[d_neps].port = (unsigned)strtoul(c + 1, NULL, 10);
            d_eps[d_neps].beh = beh;
            d_neps++;
            fprintf(out, "= ok\n");
            continue;
        }
        /* the library is about to run: flush, so that a sanitizer abort is attributed to this op */
        if (!strcmp(tok[0], "connect") || !strcmp(tok[0], "run") || !strcmp(tok[0], "end"))
            fflush(out);
        if (n == 6 && !strcmp(tok[0], "connect")) {
            hbuf jid, alt;
            char *jids, *alts, *dom;
            unsigned long port = strtoul(tok[4], NULL, 10);
            long flags = strtol(tok[5], NULL, 10);
            int rc, kind;
            kind = !strcmp(tok[1], "raw") ? 0 : !strcmp(tok[1], "client") ? 1 : !strcmp(tok[1], "component") ? 2 : -1;
            if (kind < 0 || hparse(tok[2], &jid) < 0 || !jid.p || hparse(tok[3], &alt) < 0 || port > 65535) {
                fprintf(out, "= bad-op\n");
                continue;
            }
            if (!e_ctx) {
                e_ctx = xmpp_ctx_new(&hmem, &hlog_quiet);
                e_conn = xmpp_conn_new(e_ctx);
            }
            /* legacy SSL on a non-raw connection would start a real TLS handshake on a fake fd */
            if (e_conn->state != XMPP_STATE_DISCONNECTED || (kind == 1 && (flags & XMPP_CONN_FLAG_LEGACY_SSL)) ||
                xmpp_conn_set_flags(e_conn, flags) != 0) {
                hbuf_free(&jid);
                hbuf_free(&alt);
                fprintf(out, "= bad-op\n");
                continue;
            }
            jids = hcstr(&jid);
            alts = hcstr(&alt);
            xmpp_conn_set_jid(e_conn, jids);
            xmpp_conn_set_pass(e_conn, "secret");
            free(d_domain);
            dom = xmpp_jid_domain(e_ctx, jids);
            d_domain = strdup(dom ? dom : "");
            if (dom)
                xmpp_free(e_ctx, dom);
            d_trace_n = d_events_n = 0;
            d_queries = 0;
            e_conn->is_raw = 0;
            if (kind == 0)
                rc = xmpp_connect_raw(e_conn, alts, (unsigned short)port, conn_handler, NULL);
            else if (kind == 1)
                rc = xmpp_connect_client(e_conn, alts, (unsigned short)port, conn_handler, NULL);
            else
                rc = xmpp_connect_component(e_conn, alts, (unsigned short)port, conn_handler, NULL);
            d_trace[d_trace_n] = 0;
            fprintf(out, "= rc %d q %d tr %s st %s\n", rc, d_queries, or_dash(d_trace, d_trace_n),
                    st_name(e_conn));
            free(jids);
            free(alts);
            hbuf_free(&jid);
            hbuf_free(&alt);
            continue;
        }
        if (n == 2 && !strcmp(tok[0], "run")) {
            unsigned long ms = strtoul(tok[1], NULL, 10);
            hclock_ms += ms;
            d_trace_n = d_events_n = 0;
            if (e_ctx)
                xmpp_run_once(e_ctx, 0);
            d_trace[d_trace_n] = 0;
            d_events[d_events_n] = 0;
            fprintf(out, "= tr %s ev %s st %s\n", or_dash(d_trace, d_trace_n),
                    or_dash(d_events, d_events_n), st_name(e_conn));
            continue;
        }
        if (n == 1 && !strcmp(tok[0], "end")) {
            teardown(1);
            fprintf(out, "= end\n");
            continue;
        }
        fprintf(out, "= bad-op\n");
    }
    teardown(0);
    script_reset();
    hselect_hook = NULL;
    disc_active = 0;
    return 0;
}
