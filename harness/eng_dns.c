/* engine dns (C15): lookup H  ->  = found p:w:port:Htarget,...  |  = notfound */
#include "hcommon.h"
#include "resolver.h"

int eng_dns(FILE *in, FILE *out)
{
    xmpp_ctx_t *ctx = xmpp_ctx_new(&hmem, &hlog_quiet);
    char *line;
    while ((line = hreadline(in))) {
        char *tok[3];
        int n = hsplit(line, tok, 3);
        hbuf b;
        resolver_srv_rr_t *list = (resolver_srv_rr_t *)(uintptr_t)0x1, *rr;
        int rc;
        long live_before = hmem_live;
        if (n != 2 || strcmp(tok[0], "lookup") != 0 || hparse(tok[1], &b) < 0 || !b.p) {
            fprintf(out, "= bad-op\n");
            continue;
        }
        hmem_fill = 0xA5;
        rc = resolver_srv_lookup_buf(ctx, b.p, b.n, &list);
        if (rc == XMPP_DOMAIN_FOUND) {
            int first = 1;
            if (list == NULL)
                fprintf(out, "ORACLE-FAIL found-with-empty-list\n");
            fprintf(out, "= found ");
            for (rr = list; rr; rr = rr->next) {
                size_t tl = strnlen(rr->target, sizeof(rr->target));
                if (tl >= sizeof(rr->target)) {
                    fprintf(out, "\nORACLE-FAIL target-not-terminated\n= found ");
                    tl = sizeof(rr->target);
                }
                fprintf(out, "%s%u:%u:%u:", first ? "" : ",", rr->priority, rr->weight, rr->port);
                hprint_hex(out, (unsigned char *)rr->target, tl);
                first = 0;
            }
            fputc('\n', out);
        } else {
            if (list != NULL)
                fprintf(out, "ORACLE-FAIL notfound-with-list\n");
            if (rc != XMPP_DOMAIN_NOT_FOUND)
                fprintf(out, "ORACLE-FAIL unexpected-rc %d\n", rc);
            fprintf(out, "= notfound\n");
        }
        if (list != NULL && list != (resolver_srv_rr_t *)(uintptr_t)0x1)
            resolver_srv_free(ctx, list);
        if (hmem_live != live_before)
            fprintf(out, "ORACLE-FAIL leak %ld\n", hmem_live - live_before);
        hbuf_free(&b);
    }
    xmpp_ctx_free(ctx);
    return 0;
}
