/* engine stz (C09): stanza construction / rendering / re-parsing over the REAL library
 * (xmpp_stanza_* public API, instrumented allocator `hmem`).
 *
 * State: 64 variables v0..v63, each empty or holding ONE reference to a ROOT stanza (a stanza
 * without parent).  A *target* T is a variable or a path below it: `v3`, `v3/0/2` (= third child
 * of the first child of v3); paths are resolved with xmpp_stanza_get_children/get_next, so every
 * node of every tree stays reachable for mutation after it was attached, while no variable ever
 * aliases a node of another variable's tree (the op `child` hands the child over).  Byte strings
 * are lower-case hex (`.` empty, `-` NULL); every string is passed to the library as a C string
 * (bytes after an embedded NUL are not seen by it), except for `text` which uses the
 * buffer+size variant.
 *
 *   new v                  xmpp_stanza_new                                   = ok
 *   name T H               xmpp_stanza_set_name                              = rc n
 *   text T H               xmpp_stanza_set_text_with_size(T, H, |H|)         = rc n
 *   textz T H              xmpp_stanza_set_text                              = rc n
 *   attr T Hk Hv           xmpp_stanza_set_attribute                         = rc n
 *   ns T H                 xmpp_stanza_set_ns                                = rc n
 *   delattr T Hk           xmpp_stanza_del_attribute                         = rc n
 *   getattr T Hk           xmpp_stanza_get_attribute                         = val H|-
 *   attrs T                xmpp_stanza_get_attribute_count + get_attributes  = attrs n k=v,k=v…
 *                          (ITERATION order of the hash table, `-` when there are none)
 *   child T c              xmpp_stanza_add_child(T, vc); xmpp_stanza_release(vc); vc := empty
 *                                                                            = rc n
 *   copy T w               vw := xmpp_stanza_copy(T)                         = ok | = null
 *   reply T w              vw := xmpp_stanza_reply(T)                        = ok | = null
 *   replyerr T w Ht Hc Hx  vw := xmpp_stanza_reply_error(T, type, cond, text) (each H may be `-`)
 *                                                                            = ok | = null
 *   errnew n Hx w          vw := xmpp_error_new(ctx, (xmpp_error_type_t)n, text|NULL)   = ok
 *   rel v                  xmpp_stanza_release(vv); vv := empty              = freed n
 *   render T               xmpp_stanza_to_text                               = H len | = err rc
 *                          (rendering a non-root target renders it in the context of its parent)
 *   parse H w              vw := xmpp_stanza_new_from_string(ctx, H)         = ok | = null
 *   reparse T w            render T, then vw := xmpp_stanza_new_from_string(ctx, rendering)
 *                                                                            = ok | = null | = err rc
 *   dump T                 canonical bracketed form read through the ACCESSOR API
 *                          (xmpp_stanza_is_text/is_tag, get_name, get_text_ptr,
 *                          get_attribute_count/get_attributes SORTED by key, get_children/get_next):
 *                            tag   (Hname{Hk=Hv,…}[kid,kid,…])
 *                            text  'Hdata'      (followed by [kids] only if it has children)
 *                            other ?            (followed by [kids] only if it has children)
 *                                                                            = tree <canonical>
 *   xcanon A H             parse the bytes H with RAW expat (namespace aware; NOT through
 *                          parser_expat.c) inside a wrapper element declaring the default
 *                          namespace A (`-`: none) and print the canonical tree
 *                            element (Hns|Hname{Hk=Hv,… sorted}[kids])   ns `-` = no namespace
 *                            text    'H'   (adjacent character data merged, empty text dropped)
 *                                                                            = xml <canonical> | = xml-error
 *   xrender A T n|-        render T, keep the first n bytes (`-`: all), then as `xcanon A <those bytes>`
 *                                                                            = xml … | = xml-error | = err rc
 *   end                    release every variable; `ORACLE-FAIL leak n` if blocks stay live
 *                                                                            = end
 *   case                   (line protocol) same clean-up, silently           = case
 *
 * Refusals (no library call is made, state unchanged):
 *   = err bad-op   malformed line            = err novar  source/target variable empty
 *   = err busy     destination variable occupied
 *   = err path     path does not resolve     = err cycle  `child T c` with c the root of T
 *
 * ORACLE-FAIL lines (property violations visible without any model):
 *   length   strlen(returned buffer) != reported length
 *   errbuf   error return with a non-NULL buffer / non-zero length
 *   unstable two consecutive renderings of the same stanza differ
 *   leak n   see `end`
 */
#include "hcommon.h"
#include <expat.h>

#define NVARS 64
#define MAXTOK 8

static xmpp_ctx_t *ctx;
static xmpp_stanza_t *vars[NVARS];
static long baseline;

static int varno(const char *tok)
{
    int n = 0;
    const char *p = tok;
    if (*p++ != 'v' || !*p)
        return -1;
    while (*p >= '0' && *p <= '9') {
        n = n * 10 + (*p - '0');
        if (n >= NVARS)
            return -1;
        p++;
    }
    if (*p && *p != '/')
        return -1;
    return n;
}

/* 0 ok, 1 bad syntax, 2 novar, 3 path */
static int resolve(const char *tok, xmpp_stanza_t **res, int *root)
{
    int v = varno(tok);
    const char *p;
    xmpp_stanza_t *s;
    if (v < 0)
        return 1;
    *root = v;
    /* syntax check of the whole path first */
    p = strchr(tok, '/');
    while (p) {
        p++;
        if (!(*p >= '0' && *p <= '9'))
            return 1;
        while (*p >= '0' && *p <= '9')
            p++;
        if (*p && *p != '/')
            return 1;
        p = *p ? p : NULL;
    }
    s = vars[v];
    if (!s)
        return 2;
    p = strchr(tok, '/');
    while (p) {
        long idx = 0;
        p++;
        while (*p >= '0' && *p <= '9') {
            idx = idx * 10 + (*p - '0');
            if (idx > 1000000)
                return 3;
            p++;
        }
        s = xmpp_stanza_get_children(s);
        while (s && idx-- > 0)
            s = xmpp_stanza_get_next(s);
        if (!s)
            return 3;
        p = *p ? p : NULL;
    }
    *res = s;
    return 0;
}

static int plainvar(const char *tok)
{
    if (strchr(tok, '/'))
        return -1;
    return varno(tok);
}

static const char *reserr(int e)
{
    return e == 1 ? "= err bad-op" : e == 2 ? "= err novar" : "= err path";
}

/* ---------------- dump through the accessor API ---------------- */

typedef struct {
    const char *k, *v;
} kv;

static int kvcmp(const void *a, const void *b)
{
    return strcmp(((const kv *)a)->k, ((const kv *)b)->k);
}

static void hexs(FILE *out, const char *s)
{
    if (!s)
        fputc('-', out);
    else
        hprint_hex(out, (const unsigned char *)s, strlen(s));
}

static void dump_kids(FILE *out, xmpp_stanza_t *s, int always);

static void dump(FILE *out, xmpp_stanza_t *s)
{
    if (xmpp_stanza_is_text(s)) {
        fputc('\'', out);
        hexs(out, xmpp_stanza_get_text_ptr(s));
        fputc('\'', out);
        dump_kids(out, s, 0);
    } else if (xmpp_stanza_is_tag(s)) {
        int n = xmpp_stanza_get_attribute_count(s), got, i;
        const char **arr = calloc((size_t)(2 * n + 2), sizeof(char *));
        kv *kvs = calloc((size_t)n + 1, sizeof(kv));
        fputc('(', out);
        hexs(out, xmpp_stanza_get_name(s));
        fputc('{', out);
        got = xmpp_stanza_get_attributes(s, arr, 2 * n);
        if (got != 2 * n)
            fprintf(out, "!count%d/%d!", got, 2 * n);
        for (i = 0; i < got / 2; i++) {
            kvs[i].k = arr[2 * i];
            kvs[i].v = arr[2 * i + 1];
        }
        qsort(kvs, (size_t)(got / 2), sizeof(kv), kvcmp);
        for (i = 0; i < got / 2; i++) {
            if (i)
                fputc(',', out);
            hexs(out, kvs[i].k);
            fputc('=', out);
            hexs(out, kvs[i].v);
        }
        fputc('}', out);
        dump_kids(out, s, 1);
        fputc(')', out);
        free(arr);
        free(kvs);
    } else {
        fputc('?', out);
        dump_kids(out, s, 0);
    }
}

static void dump_kids(FILE *out, xmpp_stanza_t *s, int always)
{
    xmpp_stanza_t *c = xmpp_stanza_get_children(s);
    if (!c && !always)
        return;
    fputc('[', out);
    for (; c; c = xmpp_stanza_get_next(c)) {
        dump(out, c);
        if (xmpp_stanza_get_next(c))
            fputc(',', out);
    }
    fputc(']', out);
}

/* ---------------- independent reader: raw expat ---------------- */

typedef struct xnode {
    struct xnode *next, *kids, *last, *parent;
    int is_text;
    char *ns, *name; /* element */
    kv *attrs;
    int nattrs;
    char *text; /* text node */
    size_t tlen;
} xnode;

typedef struct {
    xnode *cur;  /* innermost open element */
    xnode *root; /* the wrapper */
    int bad;
} xstate;

static xnode *xadd(xnode *parent)
{
    xnode *n = calloc(1, sizeof(*n));
    n->parent = parent;
    if (parent) {
        if (parent->last)
            parent->last->next = n;
        else
            parent->kids = n;
        parent->last = n;
    }
    return n;
}

static void XMLCALL x_start(void *ud, const XML_Char *nsname, const XML_Char **attrs)
{
    xstate *st = ud;
    xnode *n = xadd(st->cur);
    const char *sep = strchr(nsname, '\x1f');
    int i, cnt = 0;
    if (sep) {
        n->ns = strndup(nsname, (size_t)(sep - nsname));
        n->name = strdup(sep + 1);
        if (strchr(sep + 1, '\x1f'))
            st->bad = 1;
    } else
        n->name = strdup(nsname);
    for (i = 0; attrs[i]; i += 2)
        cnt++;
    n->attrs = calloc((size_t)cnt + 1, sizeof(kv));
    n->nattrs = cnt;
    for (i = 0; i < cnt; i++) {
        if (strchr(attrs[2 * i], '\x1f'))
            st->bad = 1; /* prefixed attribute: outside the fragment grammar */
        n->attrs[i].k = strdup(attrs[2 * i]);
        n->attrs[i].v = strdup(attrs[2 * i + 1]);
    }
    if (!st->root)
        st->root = n;
    st->cur = n;
}

static void XMLCALL x_end(void *ud, const XML_Char *name)
{
    xstate *st = ud;
    (void)name;
    if (st->cur)
        st->cur = st->cur->parent;
}

static void XMLCALL x_chars(void *ud, const XML_Char *s, int len)
{
    xstate *st = ud;
    xnode *t;
    if (!st->cur || len <= 0)
        return;
    t = st->cur->last;
    if (!t || !t->is_text) {
        t = xadd(st->cur);
        t->is_text = 1;
        t->text = malloc(1);
        t->tlen = 0;
    }
    t->text = realloc(t->text, t->tlen + (size_t)len + 1);
    memcpy(t->text + t->tlen, s, (size_t)len);
    t->tlen += (size_t)len;
}

static void x_other(void *ud, const XML_Char *s, int len)
{
    /* anything that is neither an element nor character data (comment, PI, doctype, …) */
    xstate *st = ud;
    (void)s;
    (void)len;
    st->bad = 1;
}

static void xprint(FILE *out, xnode *n)
{
    if (n->is_text) {
        fputc('\'', out);
        hprint_hex(out, (unsigned char *)n->text, n->tlen);
        fputc('\'', out);
    } else {
        int i, first = 1;
        xnode *k;
        fputc('(', out);
        hexs(out, n->ns);
        fputc('|', out);
        hexs(out, n->name);
        fputc('{', out);
        qsort(n->attrs, (size_t)n->nattrs, sizeof(kv), kvcmp);
        for (i = 0; i < n->nattrs; i++) {
            if (i)
                fputc(',', out);
            hexs(out, n->attrs[i].k);
            fputc('=', out);
            hexs(out, n->attrs[i].v);
        }
        fputs("}[", out);
        for (k = n->kids; k; k = k->next) {
            if (k->is_text && k->tlen == 0)
                continue;
            if (!first)
                fputc(',', out);
            first = 0;
            xprint(out, k);
        }
        fputs("])", out);
    }
}

static void xfree(xnode *n)
{
    xnode *k, *nx;
    int i;
    if (!n)
        return;
    for (k = n->kids; k; k = nx) {
        nx = k->next;
        xfree(k);
    }
    for (i = 0; i < n->nattrs; i++) {
        free((char *)n->attrs[i].k);
        free((char *)n->attrs[i].v);
    }
    free(n->attrs);
    free(n->ns);
    free(n->name);
    free(n->text);
    free(n);
}

static void do_xcanon(FILE *out, const hbuf *amb, const hbuf *doc)
{
    XML_Parser p = XML_ParserCreateNS(NULL, '\x1f');
    xstate st = {NULL, NULL, 0};
    char head[600];
    int ok = 1;
    xnode *only = NULL, *k;
    int count = 0;
    if (amb->p) {
        size_t i;
        if (amb->n > 500)
            ok = 0;
        for (i = 0; ok && i < amb->n; i++)
            if (strchr("'<&\"", amb->p[i]) || amb->p[i] < 0x20)
                ok = 0;
        if (ok)
            snprintf(head, sizeof head, "<w xmlns='%.*s'>", (int)amb->n, (const char *)amb->p);
    } else
        snprintf(head, sizeof head, "<w>");
    XML_SetUserData(p, &st);
    XML_SetElementHandler(p, x_start, x_end);
    XML_SetCharacterDataHandler(p, x_chars);
    XML_SetDefaultHandler(p, x_other);
    ok = ok && XML_Parse(p, head, (int)strlen(head), 0) != XML_STATUS_ERROR;
    ok = ok && XML_Parse(p, (const char *)doc->p, (int)doc->n, 0) != XML_STATUS_ERROR;
    /* the document must be complete here: the wrapper is the only open element */
    ok = ok && st.cur == st.root;
    ok = ok && XML_Parse(p, "</w>", 4, 1) != XML_STATUS_ERROR;
    ok = ok && !st.bad && st.root;
    if (ok) {
        for (k = st.root->kids; k; k = k->next) {
            count++;
            only = k;
        }
        if (count != 1 || only->is_text)
            ok = 0;
    }
    if (ok) {
        fputs("= xml ", out);
        xprint(out, only);
        fputc('\n', out);
    } else
        fputs("= xml-error\n", out);
    XML_ParserFree(p);
    xfree(st.root);
}

/* ---------------- engine ---------------- */

/* optional '-' (if neg_ok), then 1..maxdig decimal digits, nothing else */
static int numtok(const char *t, int neg_ok, int maxdig, long *res)
{
    int neg = 0, nd = 0;
    long v = 0;
    if (neg_ok && *t == '-') {
        neg = 1;
        t++;
    }
    while (*t >= '0' && *t <= '9') {
        v = v * 10 + (*t - '0');
        t++;
        if (++nd > maxdig)
            return 0;
    }
    if (*t || nd == 0)
        return 0;
    *res = neg ? -v : v;
    return 1;
}

static void cleanup(void)
{
    int i;
    for (i = 0; i < NVARS; i++)
        if (vars[i]) {
            xmpp_stanza_release(vars[i]);
            vars[i] = NULL;
        }
}

static void put_stanza(FILE *out, int w, xmpp_stanza_t *s)
{
    if (s) {
        vars[w] = s;
        fputs("= ok\n", out);
    } else
        fputs("= null\n", out);
}

static void do_render(FILE *out, xmpp_stanza_t *s)
{
    char *buf = (char *)(uintptr_t)1, *buf2 = NULL;
    size_t len = 12345, len2 = 0;
    int rc = xmpp_stanza_to_text(s, &buf, &len);
    if (rc != XMPP_EOK) {
        if (buf != NULL || len != 0)
            fputs("ORACLE-FAIL errbuf\n", out);
        fprintf(out, "= err %d\n", rc);
        return;
    }
    if (strlen(buf) != len)
        fprintf(out, "ORACLE-FAIL length strlen=%zu reported=%zu\n", strlen(buf), len);
    hmem_fill = 0x5A;
    if (xmpp_stanza_to_text(s, &buf2, &len2) != XMPP_EOK || len2 != len || strcmp(buf, buf2) != 0)
        fputs("ORACLE-FAIL unstable\n", out);
    hmem_fill = 0xA5;
    fputs("= ", out);
    hprint_hex(out, (unsigned char *)buf, strlen(buf));
    fprintf(out, " %zu\n", len);
    xmpp_free(ctx, buf);
    if (buf2)
        xmpp_free(ctx, buf2);
}

int eng_stz(FILE *in, FILE *out)
{
    char *line;
    ctx = xmpp_ctx_new(&hmem, &hlog_quiet);
    baseline = hmem_live;
    hmem_fill = 0xA5;
    while ((line = hreadline(in))) {
        char *tok[MAXTOK + 1];
        int n = hsplit(line, tok, MAXTOK + 1);
        hbuf b[3] = {{NULL, 0}, {NULL, 0}, {NULL, 0}};
        char *cs[3] = {NULL, NULL, NULL};
        xmpp_stanza_t *t = NULL;
        int root = -1, e, w, i;
        const char *op = n ? tok[0] : "";

#define BAD()                        \
    do {                             \
        fputs("= err bad-op\n", out); \
        goto done;                   \
    } while (0)
#define TARGET(k)                              \
    do {                                       \
        e = resolve(tok[k], &t, &root);        \
        if (e) {                               \
            fprintf(out, "%s\n", reserr(e));   \
            goto done;                         \
        }                                      \
    } while (0)
#define HEX(i, k, allow_null)                                                   \
    do {                                                                        \
        if (hparse(tok[k], &b[i]) < 0 || (!(allow_null) && !b[i].p))            \
            BAD();                                                              \
        cs[i] = hcstr(&b[i]);                                                   \
    } while (0)
#define DEST(k)                           \
    do {                                  \
        w = plainvar(tok[k]);             \
        if (w < 0)                        \
            BAD();                        \
        if (vars[w]) {                    \
            fputs("= err busy\n", out);   \
            goto done;                    \
        }                                 \
    } while (0)

        if (n > MAXTOK)
            BAD();
        if (strcmp(op, "case") == 0 && n == 1) {
            cleanup();
            fputs("= case\n", out);
        } else if (strcmp(op, "end") == 0 && n == 1) {
            cleanup();
            if (hmem_live != baseline)
                fprintf(out, "ORACLE-FAIL leak %ld\n", hmem_live - baseline);
            fputs("= end\n", out);
        } else if (strcmp(op, "new") == 0 && n == 2) {
            DEST(1);
            put_stanza(out, w, xmpp_stanza_new(ctx));
        } else if (strcmp(op, "name") == 0 && n == 3) {
            HEX(0, 2, 0);
            TARGET(1);
            fprintf(out, "= rc %d\n", xmpp_stanza_set_name(t, cs[0]));
        } else if (strcmp(op, "text") == 0 && n == 3) {
            HEX(0, 2, 0);
            TARGET(1);
            fprintf(out, "= rc %d\n", xmpp_stanza_set_text_with_size(t, (char *)b[0].p, b[0].n));
        } else if (strcmp(op, "textz") == 0 && n == 3) {
            HEX(0, 2, 0);
            TARGET(1);
            fprintf(out, "= rc %d\n", xmpp_stanza_set_text(t, cs[0]));
        } else if (strcmp(op, "attr") == 0 && n == 4) {
            HEX(0, 2, 0);
            HEX(1, 3, 0);
            TARGET(1);
            fprintf(out, "= rc %d\n", xmpp_stanza_set_attribute(t, cs[0], cs[1]));
        } else if (strcmp(op, "ns") == 0 && n == 3) {
            HEX(0, 2, 0);
            TARGET(1);
            fprintf(out, "= rc %d\n", xmpp_stanza_set_ns(t, cs[0]));
        } else if (strcmp(op, "delattr") == 0 && n == 3) {
            HEX(0, 2, 0);
            TARGET(1);
            fprintf(out, "= rc %d\n", xmpp_stanza_del_attribute(t, cs[0]));
        } else if (strcmp(op, "getattr") == 0 && n == 3) {
            HEX(0, 2, 0);
            TARGET(1);
            fputs("= val ", out);
            hexs(out, xmpp_stanza_get_attribute(t, cs[0]));
            fputc('\n', out);
        } else if (strcmp(op, "attrs") == 0 && n == 2) {
            int cnt, got;
            const char **arr;
            TARGET(1);
            cnt = xmpp_stanza_get_attribute_count(t);
            arr = calloc((size_t)(2 * cnt + 2), sizeof(char *));
            got = xmpp_stanza_get_attributes(t, arr, 2 * cnt);
            if (got != 2 * cnt)
                fprintf(out, "ORACLE-FAIL attrcount %d/%d\n", got, 2 * cnt);
            fprintf(out, "= attrs %d ", cnt);
            if (got == 0)
                fputc('-', out);
            for (i = 0; i < got / 2; i++) {
                if (i)
                    fputc(',', out);
                hexs(out, arr[2 * i]);
                fputc('=', out);
                hexs(out, arr[2 * i + 1]);
            }
            fputc('\n', out);
            free(arr);
        } else if (strcmp(op, "child") == 0 && n == 3) {
            int c = plainvar(tok[2]);
            int rc;
            if (c < 0)
                BAD();
            TARGET(1);
            if (!vars[c]) {
                fputs("= err novar\n", out);
                goto done;
            }
            if (c == root) {
                fputs("= err cycle\n", out);
                goto done;
            }
            rc = xmpp_stanza_add_child(t, vars[c]);
            xmpp_stanza_release(vars[c]);
            vars[c] = NULL;
            fprintf(out, "= rc %d\n", rc);
        } else if (strcmp(op, "copy") == 0 && n == 3) {
            if (plainvar(tok[2]) < 0)
                BAD();
            TARGET(1);
            DEST(2);
            put_stanza(out, w, xmpp_stanza_copy(t));
        } else if (strcmp(op, "reply") == 0 && n == 3) {
            if (plainvar(tok[2]) < 0)
                BAD();
            TARGET(1);
            DEST(2);
            put_stanza(out, w, xmpp_stanza_reply(t));
        } else if (strcmp(op, "replyerr") == 0 && n == 6) {
            if (plainvar(tok[2]) < 0)
                BAD();
            HEX(0, 3, 1);
            HEX(1, 4, 1);
            HEX(2, 5, 1);
            TARGET(1);
            DEST(2);
            put_stanza(out, w, xmpp_stanza_reply_error(t, cs[0], cs[1], cs[2]));
        } else if (strcmp(op, "errnew") == 0 && n == 4) {
            long ty;
            if (!numtok(tok[1], 1, 4, &ty) || ty < -1000 || ty > 1000)
                BAD();
            HEX(0, 2, 1);
            DEST(3);
            put_stanza(out, w, xmpp_error_new(ctx, (xmpp_error_type_t)ty, cs[0]));
        } else if (strcmp(op, "rel") == 0 && n == 2) {
            int v = plainvar(tok[1]);
            if (v < 0)
                BAD();
            if (!vars[v]) {
                fputs("= err novar\n", out);
                goto done;
            }
            fprintf(out, "= freed %d\n", xmpp_stanza_release(vars[v]));
            vars[v] = NULL;
        } else if (strcmp(op, "render") == 0 && n == 2) {
            TARGET(1);
            do_render(out, t);
        } else if (strcmp(op, "parse") == 0 && n == 3) {
            HEX(0, 1, 0);
            DEST(2);
            put_stanza(out, w, xmpp_stanza_new_from_string(ctx, cs[0]));
        } else if (strcmp(op, "reparse") == 0 && n == 3) {
            char *buf = NULL;
            size_t len = 0;
            int rc;
            if (plainvar(tok[2]) < 0)
                BAD();
            TARGET(1);
            DEST(2);
            rc = xmpp_stanza_to_text(t, &buf, &len);
            if (rc != XMPP_EOK)
                fprintf(out, "= err %d\n", rc);
            else {
                put_stanza(out, w, xmpp_stanza_new_from_string(ctx, buf));
                xmpp_free(ctx, buf);
            }
        } else if (strcmp(op, "xrender") == 0 && n == 4) {
            char *buf = NULL;
            size_t len = 0;
            long cut = -1;
            int rc;
            HEX(0, 1, 1);
            if (strcmp(tok[3], "-") != 0 && !numtok(tok[3], 0, 7, &cut))
                BAD();
            TARGET(2);
            rc = xmpp_stanza_to_text(t, &buf, &len);
            if (rc != XMPP_EOK)
                fprintf(out, "= err %d\n", rc);
            else {
                hbuf doc;
                doc.n = strlen(buf);
                if (cut >= 0 && (size_t)cut < doc.n)
                    doc.n = (size_t)cut;
                doc.p = malloc(doc.n ? doc.n : 1);     /* exact size: over-reads are visible */
                memcpy(doc.p, buf, doc.n);
                do_xcanon(out, &b[0], &doc);
                free(doc.p);
                xmpp_free(ctx, buf);
            }
        } else if (strcmp(op, "dump") == 0 && n == 2) {
            TARGET(1);
            fputs("= tree ", out);
            dump(out, t);
            fputc('\n', out);
        } else if (strcmp(op, "xcanon") == 0 && n == 3) {
            HEX(0, 1, 1);
            HEX(1, 2, 0);
            do_xcanon(out, &b[0], &b[1]);
        } else
            BAD();
    done:
        for (i = 0; i < 3; i++) {
            hbuf_free(&b[i]);
            free(cs[i]);
        }
    }
    cleanup();
    if (hmem_live != baseline)
        fprintf(out, "ORACLE-FAIL leak %ld\n", hmem_live - baseline);
    xmpp_ctx_free(ctx);
    return 0;
}
