/* Scripted network under a real xmpp_conn_t: replaces sock.c and tls_openssl.c (engine conn). */
#ifndef FAKE_NET_H
#define FAKE_NET_H
#include "hcommon.h"

typedef struct {
    /* connect script */
    int connect_fail;          /* next sock_connect returns INVALID_SOCKET */
    int connect_error;         /* what sock_connect_error reports (0 = ok) */
    long connect_calls;
    /* inbound: at most one pending event */
    unsigned char *rx;
    size_t rx_n;
    int rx_kind;               /* 0 none, 1 data, 2 eof, 3 hard error */
    /* outbound */
    int sched[4096];
    int nsched, sched_pos;
    int sched_default;         /* answer when the schedule is exhausted: ACC_ALL or ACC_AGAIN */
    unsigned char *wire;       /* bytes accepted since last take; */
    unsigned char *wire_sec;   /* parallel array: 1 if written through TLS */
    size_t wire_n, wire_cap;
    int last_err;
    /* tls script */
    int tls_new_fail;
    int tls_start_fail;
    int tls_active;            /* a tls object exists and handshake succeeded */
    long tls_new_calls, tls_start_calls, tls_free_calls;
    int sock_open;             /* number of currently open fake sockets */
} fnet_t;

extern fnet_t fnet;
void fnet_reset(void);
void fnet_set_schedule(const char *csv);
int fnet_select(int nfds, fd_set *r, fd_set *w, fd_set *e, struct timeval *tv);
#endif
