/* Replaces /repo/src/tls_openssl.c: the internal API of tls.h over the scripted network.
   The handshake result and tls_new failure are scripted; bytes written through the TLS layer are
   marked "secured" in the wire log. */
#include <errno.h>
#include "fake_net.h"
#include "tls.h"

int fnet_tls_read(void *buff, size_t len);
int fnet_tls_write(const void *buff, size_t len);

struct _tls {
    xmpp_ctx_t *ctx;
    xmpp_conn_t *conn;
    int started;
};

void tls_initialize(void) {}
void tls_shutdown(void) {}

tls_t *tls_new(xmpp_conn_t *conn)
{
    tls_t *t;
    fnet.tls_new_calls++;
    if (fnet.tls_new_fail)
        return NULL;
    t = strophe_alloc(conn->ctx, sizeof(*t));
    if (t) {
        t->ctx = conn->ctx;
        t->conn = conn;
        t->started = 0;
    }
    return t;
}

void tls_free(tls_t *tls)
{
    fnet.tls_free_calls++;
    if (tls->started)
        fnet.tls_active = 0;
    strophe_free(tls->ctx, tls);
}

char *tls_id_on_xmppaddr(xmpp_conn_t *conn, unsigned int n)
{
    (void)conn;
    (void)n;
    return NULL;
}
unsigned int tls_id_on_xmppaddr_num(xmpp_conn_t *conn)
{
    (void)conn;
    return 0;
}
xmpp_tlscert_t *tls_peer_cert(xmpp_conn_t *conn)
{
    (void)conn;
    return NULL;
}
int tls_set_credentials(tls_t *tls, const char *cafilename)
{
    (void)tls;
    (void)cafilename;
    return 0;
}
int tls_init_channel_binding(tls_t *tls, const char **binding_prefix, size_t *binding_prefix_len)
{
    (void)tls;
    *binding_prefix = "tls-exporter";
    *binding_prefix_len = 12;
    return 0;
}
const void *tls_get_channel_binding_data(tls_t *tls, size_t *size)
{
    static const unsigned char data[32] = {1, 2, 3, 4, 5, 6, 7, 8, 9, 10, 11, 12, 13, 14, 15, 16,
                                           17, 18, 19, 20, 21, 22, 23, 24, 25, 26, 27, 28, 29, 30, 31, 32};
    (void)tls;
    *size = sizeof(data);
    return data;
}
int tls_start(tls_t *tls)
{
    fnet.tls_start_calls++;
    if (fnet.tls_start_fail) {
        fnet.last_err = EPROTO;
        return 0;
    }
    tls->started = 1;
    fnet.tls_active = 1;
    return 1;
}
int tls_stop(tls_t *tls)
{
    (void)tls;
    return 1;
}
int tls_pending(struct conn_interface *intf)
{
    (void)intf;
    return 0;
}
int tls_read(struct conn_interface *intf, void *buff, size_t len)
{
    (void)intf;
    return fnet_tls_read(buff, len);
}
int tls_write(struct conn_interface *intf, const void *buff, size_t len)
{
    (void)intf;
    return fnet_tls_write(buff, len);
}
int tls_clear_pending_write(struct conn_interface *intf)
{
    (void)intf;
    return 0;
}
int tls_error(struct conn_interface *intf)
{
    (void)intf;
    return fnet.last_err;
}
int tls_is_recoverable(struct conn_interface *intf, int error)
{
    (void)intf;
    return error == EAGAIN || error == EINTR;
}
