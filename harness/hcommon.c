#include "hcommon.h"

/* ---------------- instrumented allocator ---------------- */

unsigned char hmem_fill = 0xA5;
long hmem_live = 0;
long hmem_allocs = 0;
long hmem_fail_at = 0;

#define HTAB (1u << 16)
typedef struct hblk {
    struct hblk *next;
    void *p;
    size_t n;
} hblk;
static hblk *htab[HTAB];

static unsigned hidx(const void *p)
{
    uintptr_t v = (uintptr_t)p;
    v ^= v >> 17;
    v *= 0x9E3779B97F4A7C15ull;
    return (unsigned)(v >> 40) & (HTAB - 1);
}

static void hreg(void *p, size_t n)
{
    hblk *b = malloc(sizeof(*b));
    unsigned i = hidx(p);
    b->p = p;
    b->n = n;
    b->next = htab[i];
    htab[i] = b;
    hmem_live++;
}

static size_t hunreg(void *p, int *found)
{
    unsigned i = hidx(p);
    hblk **pp = &htab[i];
    while (*pp) {
        if ((*pp)->p == p) {
            hblk *b = *pp;
            size_t n = b->n;
            *pp = b->next;
            free(b);
            hmem_live--;
            *found = 1;
            return n;
        }
        pp = &(*pp)->next;
    }
    *found = 0;
    return 0;
}

int hmem_is_live(const void *p)
{
    hblk *b = htab[hidx(p)];
    for (; b; b = b->next)
        if (b->p == p)
            return 1;
    return 0;
}

static int hfail(void)
{
    if (hmem_fail_at > 0 && --hmem_fail_at == 0)
        return 1;
    return 0;
}

static void *h_alloc(size_t size, void *ud)
{
    void *p;
    (void)ud;
    hmem_allocs++;
    if (hfail())
        return NULL;
    p = malloc(size ? size : 1);
    if (!p)
        return NULL;
    memset(p, hmem_fill, size);
    hreg(p, size);
    return p;
}

static void h_free(void *p, void *ud)
{
    int found;
    size_t n;
    (void)ud;
    if (!p)
        return;
    n = hunreg(p, &found);
    if (!found) {
        printf("ORACLE-FAIL foreign-or-double-free %p\n", p);
        fflush(stdout);
        abort();
    }
    memset(p, 0xDD, n);
    free(p);
}

static void *h_realloc(void *p, size_t size, void *ud)
{
    int found;
    size_t old;
    void *q;
    (void)ud;
    if (!p)
        return h_alloc(size, ud);
    if (size == 0) {
        h_free(p, ud);
        return NULL;
    }
    hmem_allocs++;
    if (hfail())
        return NULL;
    old = hunreg(p, &found);
    if (!found) {
        printf("ORACLE-FAIL foreign-realloc %p\n", p);
        fflush(stdout);
        abort();
    }
    /* always move, so stale pointers are caught */
    q = malloc(size);
    memset(q, hmem_fill, size);
    memcpy(q, p, old < size ? old : size);
    memset(p, 0xDD, old);
    free(p);
    hreg(q, size);
    return q;
}

const xmpp_mem_t hmem = {h_alloc, h_free, h_realloc, NULL};

void hmem_report_leaks(FILE *f)
{
    unsigned i;
    for (i = 0; i < HTAB; i++) {
        hblk *b;
        for (b = htab[i]; b; b = b->next)
            fprintf(f, "LEAK %zu bytes\n", b->n);
    }
}

/* ---------------- logger ---------------- */

static void hlog_fn(void *ud, xmpp_log_level_t level, const char *area, const char *msg)
{
    (void)ud;
    (void)level;
    (void)area;
    (void)msg;
    if (getenv("HDRV_LOG"))
        fprintf(stderr, "[%d] %s: %s\n", (int)level, area, msg);
}

const xmpp_log_t hlog_quiet = {hlog_fn, NULL};

/* ---------------- line protocol ---------------- */

static int hexval(int c)
{
    if (c >= '0' && c <= '9')
        return c - '0';
    if (c >= 'a' && c <= 'f')
        return c - 'a' + 10;
    if (c >= 'A' && c <= 'F')
        return c - 'A' + 10;
    return -1;
}

int hparse(const char *tok, hbuf *out)
{
    size_t n = strlen(tok), i;
    out->p = NULL;
    out->n = 0;
    if (strcmp(tok, "-") == 0)
        return 0;
    if (strcmp(tok, ".") == 0) {
        out->p = malloc(1);
        return 0;
    }
    if (n % 2)
        return -1;
    out->n = n / 2;
    out->p = malloc(out->n);
    for (i = 0; i < out->n; i++) {
        int a = hexval(tok[2 * i]), b = hexval(tok[2 * i + 1]);
        if (a < 0 || b < 0) {
            free(out->p);
            out->p = NULL;
            return -1;
        }
        out->p[i] = (unsigned char)(a * 16 + b);
    }
    return 0;
}

void hbuf_free(hbuf *b)
{
    free(b->p);
    b->p = NULL;
    b->n = 0;
}

char *hcstr(const hbuf *b)
{
    char *s;
    if (!b->p)
        return NULL;
    s = malloc(b->n + 1);
    memcpy(s, b->p, b->n);
    s[b->n] = 0;
    return s;
}

void hprint_hex(FILE *f, const unsigned char *p, size_t n)
{
    static const char d[] = "0123456789abcdef";
    size_t i;
    if (!p) {
        fputc('-', f);
        return;
    }
    if (n == 0) {
        fputc('.', f);
        return;
    }
    for (i = 0; i < n; i++) {
        fputc(d[p[i] >> 4], f);
        fputc(d[p[i] & 15], f);
    }
}

char *hreadline(FILE *f)
{
    static char *buf = NULL;
    static size_t cap = 0;
    for (;;) {
        ssize_t n = getline(&buf, &cap, f);
        if (n < 0)
            return NULL;
        while (n > 0 && (buf[n - 1] == '\n' || buf[n - 1] == '\r' || buf[n - 1] == ' '))
            buf[--n] = 0;
        if (n == 0 || buf[0] == '#')
            continue;
        return buf;
    }
}

int hsplit(char *line, char **tok, int max)
{
    int n = 0;
    char *p = line;
    while (*p && n < max) {
        tok[n++] = p;
        while (*p && *p != ' ')
            p++;
        if (*p)
            *p++ = 0;
    }
    return n;
}

/* ---------------- virtual clock and select (linked with -Wl,--wrap=...) ---------------- */
#include <sys/select.h>
#include <sys/time.h>
#include <time.h>

uint64_t hclock_ms = 1000000; /* virtual time in ms */
int hselect_mode = 0;         /* 0: return 0 (nothing readable); 1: mark all requested fds ready */
long hselect_calls = 0;
int (*hselect_hook)(int nfds, fd_set *rfds, fd_set *wfds, fd_set *efds, struct timeval *tv) = NULL;

int __wrap_gettimeofday(struct timeval *tv, void *tz)
{
    (void)tz;
    tv->tv_sec = (time_t)(hclock_ms / 1000);
    tv->tv_usec = (suseconds_t)((hclock_ms % 1000) * 1000);
    return 0;
}

int __real_clock_gettime(clockid_t id, struct timespec *ts);
int __wrap_clock_gettime(clockid_t id, struct timespec *ts)
{
    /* used by rand.c for entropy only; keep it deterministic */
    (void)id;
    ts->tv_sec = (time_t)(hclock_ms / 1000);
    ts->tv_nsec = (long)((hclock_ms % 1000) * 1000000);
    return 0;
}

int __wrap_select(int nfds, fd_set *r, fd_set *w, fd_set *e, struct timeval *tv)
{
    (void)tv;
    (void)e;
    hselect_calls++;
    if (hselect_hook)
        return hselect_hook(nfds, r, w, e, tv);
    if (hselect_mode == 0) {
        if (r)
            FD_ZERO(r);
        if (w)
            FD_ZERO(w);
        if (e)
            FD_ZERO(e);
        return 0;
    }
    /* leave the requested sets as they are: everything asked for is ready */
    (void)nfds;
    {
        int i, c = 0;
        for (i = 0; i < nfds; i++) {
            if (r && FD_ISSET(i, r))
                c++;
            if (w && FD_ISSET(i, w))
                c++;
        }
        if (e)
            FD_ZERO(e);
        return c;
    }
}
