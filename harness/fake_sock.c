/* Replaces /repo/src/sock.c: the same internal API (sock.h) over the scripted network. */
#include <errno.h>
#include <fcntl.h>
#include <sys/select.h>
#include <unistd.h>
#include "fake_net.h"
#include "sock.h"
#include "hconn.h" /* ACC_* */

fnet_t fnet;

struct _xmpp_sock_t {
    xmpp_ctx_t *ctx;
    xmpp_conn_t *conn;
};

void fnet_reset(void)
{
    free(fnet.rx);
    free(fnet.wire);
    free(fnet.wire_sec);
    memset(&fnet, 0, sizeof(fnet));
    fnet.sched_default = ACC_ALL;
}

void fnet_set_schedule(const char *csv)
{
    const char *p = csv;
    fnet.nsched = 0;
    fnet.sched_pos = 0;
    fnet.sched_default = ACC_AGAIN;
    if (!strcmp(csv, "-"))
        return;
    if (!strcmp(csv, "all")) {
        fnet.sched_default = ACC_ALL;
        return;
    }
    while (*p && fnet.nsched < 4096) {
        if (!strncmp(p, "all", 3))
            fnet.sched[fnet.nsched++] = ACC_ALL;
        else if (!strncmp(p, "again", 5))
            fnet.sched[fnet.nsched++] = ACC_AGAIN;
        else if (!strncmp(p, "err", 3))
            fnet.sched[fnet.nsched++] = ACC_ERR;
        else
            fnet.sched[fnet.nsched++] = atoi(p);
        while (*p && *p != ',')
            p++;
        if (*p == ',')
            p++;
    }
}

void sock_initialize(void) {}
void sock_shutdown(void) {}

int sock_error(struct conn_interface *intf)
{
    (void)intf;
    return fnet.last_err;
}

int sock_is_recoverable(struct conn_interface *intf, int error)
{
    (void)intf;
    return error == EAGAIN || error == EINTR;
}

xmpp_sock_t *sock_new(xmpp_conn_t *conn, const char *domain, const char *host, unsigned short port)
{
    xmpp_sock_t *x = strophe_alloc(conn->ctx, sizeof(*x));
    (void)domain;
    (void)host;
    (void)port;
    if (x) {
        x->ctx = conn->ctx;
        x->conn = conn;
    }
    return x;
}

void sock_free(xmpp_sock_t *xsock)
{
    if (xsock)
        strophe_free(xsock->ctx, xsock);
}

sock_t sock_connect(xmpp_sock_t *xsock)
{
    (void)xsock;
    fnet.connect_calls++;
    if (fnet.connect_fail)
        return INVALID_SOCKET;
    fnet.sock_open++;
    return open("/dev/null", O_RDWR);
}

int sock_close(sock_t sock)
{
    if (sock < 0)
        return -1;
    fnet.sock_open--;
    return close(sock);
}

int sock_set_blocking(sock_t sock)
{
    (void)sock;
    return 0;
}
int sock_set_nonblocking(sock_t sock)
{
    (void)sock;
    return 0;
}
int sock_connect_error(sock_t sock)
{
    (void)sock;
    return fnet.connect_error;
}
int sock_set_keepalive(sock_t sock, int timeout, int interval, int count, unsigned int user_timeout)
{
    (void)sock;
    (void)timeout;
    (void)interval;
    (void)count;
    (void)user_timeout;
    return 0;
}

static int fnet_read(void *buff, size_t len)
{
    if (fnet.rx_kind == 1) {
        size_t n = fnet.rx_n < len ? fnet.rx_n : len;
        memcpy(buff, fnet.rx, n);
        memmove(fnet.rx, fnet.rx + n, fnet.rx_n - n);
        fnet.rx_n -= n;
        if (fnet.rx_n == 0)
            fnet.rx_kind = 0;
        return (int)n;
    }
    if (fnet.rx_kind == 2) {
        fnet.rx_kind = 0;
        fnet.last_err = 0;
        return 0;
    }
    if (fnet.rx_kind == 3) {
        fnet.rx_kind = 0;
        fnet.last_err = ECONNRESET;
        return -1;
    }
    fnet.last_err = EAGAIN;
    return -1;
}

static int fnet_write(const void *buff, size_t len, int secured)
{
    int a = fnet.sched_pos < fnet.nsched ? fnet.sched[fnet.sched_pos++] : fnet.sched_default;
    int n;
    if (a == ACC_AGAIN) {
        fnet.last_err = EAGAIN;
        return -1;
    }
    if (a == ACC_ERR) {
        fnet.last_err = ECONNRESET;
        return -1;
    }
    n = a == ACC_ALL ? (int)len : (a < (int)len ? a : (int)len);
    if (fnet.wire_n + (size_t)n + 1 > fnet.wire_cap) {
        fnet.wire_cap = (fnet.wire_n + (size_t)n + 1) * 2;
        fnet.wire = realloc(fnet.wire, fnet.wire_cap);
        fnet.wire_sec = realloc(fnet.wire_sec, fnet.wire_cap);
    }
    memcpy(fnet.wire + fnet.wire_n, buff, (size_t)n);
    memset(fnet.wire_sec + fnet.wire_n, secured, (size_t)n);
    fnet.wire_n += (size_t)n;
    return n;
}

int sock_read(struct conn_interface *intf, void *buff, size_t len)
{
    (void)intf;
    return fnet_read(buff, len);
}

int sock_write(struct conn_interface *intf, const void *buff, size_t len)
{
    (void)intf;
    return fnet_write(buff, len, 0);
}

const struct conn_interface sock_intf = {
    sock_read, sock_write, conn_int_nop, conn_int_nop, sock_error, sock_is_recoverable, NULL,
};

/* readable iff an inbound event is scripted; writable whenever asked */
int fnet_select(int nfds, fd_set *r, fd_set *w, fd_set *e, struct timeval *tv)
{
    int i, c = 0;
    (void)tv;
    if (e)
        FD_ZERO(e);
    for (i = 0; i < nfds; i++) {
        if (r && FD_ISSET(i, r)) {
            if (fnet.rx_kind != 0)
                c++;
            else
                FD_CLR(i, r);
        }
        if (w && FD_ISSET(i, w))
            c++;
    }
    return c;
}

/* used by fake_tls.c */
int fnet_tls_read(void *buff, size_t len)
{
    return fnet_read(buff, len);
}
int fnet_tls_write(const void *buff, size_t len)
{
    return fnet_write(buff, len, 1);
}

/* public function that lives in sock.c */
int xmpp_sockopt_cb_keepalive(xmpp_conn_t *conn, void *socket)
{
    (void)conn;
    (void)socket;
    return 0;
}
