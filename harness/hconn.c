#include "hconn.h"
#include <errno.h>
#include <fcntl.h>
#include <unistd.h>

hconn_t *hconn_cur = NULL;

static int f_read(struct conn_interface *intf, void *buff, size_t len)
{
    (void)intf;
    (void)buff;
    (void)len;
    hconn_cur->last_err = EAGAIN;
    return -1;
}

static int f_write(struct conn_interface *intf, const void *buff, size_t len)
{
    hconn_t *h = hconn_cur;
    int a, n;
    (void)intf;
    h->write_calls++;
    a = h->sched_pos < h->nsched ? h->sched[h->sched_pos++] : ACC_AGAIN;
    if (a == ACC_AGAIN) {
        h->last_err = EAGAIN;
        return -1;
    }
    if (a == ACC_ERR) {
        h->last_err = ECONNRESET;
        return -1;
    }
    n = a == ACC_ALL ? (int)len : (a < (int)len ? a : (int)len);
    if (h->wire_n + (size_t)n + 1 > h->wire_cap) {
        h->wire_cap = (h->wire_n + (size_t)n + 1) * 2;
        h->wire = realloc(h->wire, h->wire_cap);
    }
    memcpy(h->wire + h->wire_n, buff, (size_t)n);
    h->wire_n += (size_t)n;
    return n;
}

static int f_get_error(struct conn_interface *intf)
{
    (void)intf;
    return hconn_cur->last_err;
}

static int f_recoverable(struct conn_interface *intf, int err)
{
    (void)intf;
    return err == EAGAIN || err == EINTR;
}

void hconn_install_intf(hconn_t *h)
{
    h->conn->intf.read = f_read;
    h->conn->intf.write = f_write;
    h->conn->intf.flush = conn_int_nop;
    h->conn->intf.pending = conn_int_nop;
    h->conn->intf.get_error = f_get_error;
    h->conn->intf.error_is_recoverable = f_recoverable;
    h->conn->intf.conn = h->conn;
}

static void conn_handler(xmpp_conn_t *conn, xmpp_conn_event_t ev, int error,
                         xmpp_stream_error_t *se, void *ud)
{
    hconn_t *h = ud;
    size_t l = strlen(h->events);
    (void)conn;
    (void)se;
    if (ev == XMPP_CONN_CONNECT)
        h->n_connect++;
    else if (ev == XMPP_CONN_RAW_CONNECT)
        h->n_raw++;
    else if (ev == XMPP_CONN_DISCONNECT)
        h->n_disconnect++;
    h->last_ev_error = error;
    snprintf(h->events + l, sizeof(h->events) - l, "%s%s", l ? "," : "",
             ev == XMPP_CONN_CONNECT ? "CONNECT" : ev == XMPP_CONN_RAW_CONNECT ? "RAW" : ev == XMPP_CONN_DISCONNECT ? "DISCONNECT" : "FAIL");
}

hconn_t *hconn_new(xmpp_ctx_t *ctx)
{
    hconn_t *h = calloc(1, sizeof(*h));
    xmpp_sm_state_t *sm;
    h->ctx = ctx ? ctx : xmpp_ctx_new(&hmem, &hlog_quiet);
    h->conn = xmpp_conn_new(h->ctx);
    sm = strophe_alloc(h->ctx, sizeof(*sm));
    memset(sm, 0, sizeof(*sm));
    sm->ctx = h->ctx;
    xmpp_conn_set_sm_state(h->conn, sm);
    hconn_install_intf(h);
    h->conn->conn_handler = conn_handler;
    h->conn->userdata = h;
    h->conn->state = XMPP_STATE_CONNECTED;
    h->conn->stream_negotiation_completed = 1;
    /* a real, harmless descriptor: conn_disconnect() closes it */
    h->conn->sock = open("/dev/null", O_RDWR);
    hconn_cur = h;
    return h;
}

void hconn_free(hconn_t *h, int free_ctx)
{
    xmpp_ctx_t *ctx = h->ctx;
    hconn_cur = h;
    xmpp_conn_release(h->conn);
    if (free_ctx)
        xmpp_ctx_free(ctx);
    free(h->wire);
    free(h);
    hconn_cur = NULL;
}

void hconn_set_schedule(hconn_t *h, const char *csv)
{
    const char *p = csv;
    h->nsched = 0;
    h->sched_pos = 0;
    if (!strcmp(csv, "-"))
        return;
    while (*p && h->nsched < 4096) {
        if (!strncmp(p, "all", 3))
            h->sched[h->nsched++] = ACC_ALL;
        else if (!strncmp(p, "again", 5))
            h->sched[h->nsched++] = ACC_AGAIN;
        else if (!strncmp(p, "err", 3))
            h->sched[h->nsched++] = ACC_ERR;
        else
            h->sched[h->nsched++] = atoi(p);
        while (*p && *p != ',')
            p++;
        if (*p == ',')
            p++;
    }
}

void hconn_take_wire(hconn_t *h, FILE *out)
{
    hprint_hex(out, h->wire ? h->wire : (unsigned char *)"", h->wire_n);
    h->wire_n = 0;
}

static const char *owner_name(int o)
{
    return o == XMPP_QUEUE_USER ? "u" : o == XMPP_QUEUE_STROPHE ? "l" : o == XMPP_QUEUE_SM_STROPHE ? "s" : "?";
}

/* q <len> <userlen> owner:written:wip:linked:hex,...  | sm h:hex:owner,... */
void hconn_dump_queue(hconn_t *h, FILE *out)
{
    xmpp_send_queue_t *e, *prev = NULL;
    int first = 1;
    fprintf(out, "q %d %d ", h->conn->send_queue_len, h->conn->send_queue_user_len);
    if (!h->conn->send_queue_head)
        fputc('-', out);
    for (e = h->conn->send_queue_head; e; e = e->next) {
        fprintf(out, "%s%s:%zu:%d:%d:", first ? "" : ",", owner_name(e->owner), e->written, e->wip,
                (e->userdata != NULL && e->userdata == prev) ? 1 : 0);
        hprint_hex(out, (unsigned char *)e->data, e->len);
        first = 0;
        prev = e;
    }
    if (prev != h->conn->send_queue_tail)
        fprintf(out, " TAIL-MISMATCH");
    fprintf(out, " sm %u %d ", h->conn->sm_state->sm_sent_nr, h->conn->sm_state->r_sent);
    first = 1;
    if (!h->conn->sm_state->sm_queue.head)
        fputc('-', out);
    for (e = h->conn->sm_state->sm_queue.head; e; e = e->next) {
        fprintf(out, "%s%u:", first ? "" : ",", e->sm_h);
        hprint_hex(out, (unsigned char *)e->data, e->len);
        /* the owner decides how the element behaves once it is handed back to the send queue */
        fprintf(out, ":%s", owner_name(e->owner));
        first = 0;
    }
}
